#!/bin/sh
# offline setup: nothing is fetched or pre-built; every check rebuilds what it needs from /repo's working tree
set -e
cd "$(dirname "$0")"
cargo kani --version >/dev/null
z3 --version >/dev/null
cvc5 --version >/dev/null 2>&1 || true
python3 -c "import sys; sys.path.insert(0,'.'); import verifkit.driver, verifkit.kani"
mkdir -p evidence
echo "setup ok"
