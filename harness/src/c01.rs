//! C01 — civil calendar <-> day count.  See DESIGN.md §5 C01.
use tyme4rs::tyme::Tyme;
use tyme4rs::tyme::jd::JulianDay;
use tyme4rs::tyme::solar::{SolarDay, SolarMonth, SolarYear};
use crate::nd::In;
use crate::refcal::*;
use crate::{witness, Body};

fn sd(y: i64, m: i64, d: i64) -> SolarDay { SolarDay::from_ymd(y as isize, m as usize, d as usize) }
fn jd_of(y: i64, m: i64, d: i64) -> f64 { sd(y, m, d).get_julian_day().get_day() }

/// 01.a  SolarDay::new accepts exactly the dates that exist; fields echo the input.  p = []
pub fn c01a_accept(i: &mut In, _p: &[i64]) {
  let y = i.int(1, 9999);
  let m = i.int(1, 12);
  let d = i.int(0, 40);
  let r = SolarDay::new(y as isize, m as usize, d as usize);
  let ok = r.is_ok();
  assert!(ok == valid(y, m, d));
  if let Ok(x) = &r {
    assert!(x.get_year() as i64 == y && x.get_month() as i64 == m && x.get_day() as i64 == d);
  }
  witness!(ok && y == 1582 && m == 10 && d == 15, "first Gregorian day accepted");
  witness!(!ok && y == 1582 && m == 10 && d == 10, "dropped day refused");
  witness!(!ok && m == 2 && d == 29, "Feb 29 of a common year refused");
  witness!(ok && m == 2 && d == 29 && y == 1500, "Julian century leap day accepted");
  std::mem::forget(r);
}

/// 01.a  year / month constructors: Ok exactly inside 1..9999 / 1..12.  p = []
pub fn c01a_ranges(i: &mut In, _p: &[i64]) {
  let y = i.int(-5, 10005);
  let m = i.int(0, 20);
  let ry = SolarYear::new(y as isize);
  assert!(ry.is_ok() == (1 <= y && y <= 9999));
  if 1 <= y && y <= 9999 {
    let rm = SolarMonth::new(y as isize, m as usize);
    assert!(rm.is_ok() == (1 <= m && m <= 12));
    std::mem::forget(rm);
  }
  witness!(y == 0, "year 0");
  witness!(y == 10000, "year 10000");
  std::mem::forget(ry);
}

/// 01.a  a date with month 0/13.. or year outside 1..9999 is refused, by Err or by panic.  Under Kani the panic is
/// a failed check of its own (allowed for this job) and the "ACCEPTED" assertion must not fail.  p = [which]: 0 = bad month, 1 = bad year
pub fn c01a_refuse(i: &mut In, p: &[i64]) {
  let (y, m) = if p[0] == 0 {
    let y = i.int(1, 9999);
    let m = i.int(0, 20);
    i.assume(m == 0 || m > 12);
    (y, m)
  } else {
    let y = i.int(-3, 10003);
    let m = i.int(1, 12);
    i.assume(y < 1 || y > 9999);
    (y, m)
  };
  let d = i.int(1, 28);
  let refused = crate::nd::refused(|| SolarDay::new(y as isize, m as usize, d as usize).is_err());
  assert!(refused, "ACCEPTED");
}

/// 01.b  anchors.  p = []
pub fn c01b_anchor(_i: &mut In, _p: &[i64]) {
  assert!(jd_of(1, 1, 1) == 1721423.5);
  assert!(jd_of(9999, 12, 31) == 5373483.5);
  assert!(jd_of(1582, 10, 4) == 2299159.5);
  assert!(jd_of(1582, 10, 15) == 2299160.5);
  assert!(ordinal(1, 1, 1) == ORD_MIN && ordinal(9999, 12, 31) == ORD_MAX);
}

/// 01.c  the day count grows by one along `succ`, and equals refcal ordinal - 0.5.  p = [month, ylo, yhi]
pub fn c01c_succ(i: &mut In, p: &[i64]) {
  let m = p[0];
  let y = i.int(p[1], p[2]);
  let d = i.int(1, 31);
  i.assume(valid(y, m, d));
  i.assume(!(y == 9999 && m == 12 && d == 31));
  let jd = jd_of(y, m, d);
  let (y2, m2, d2) = succ(y, m, d);
  let jd2 = jd_of(y2, m2, d2);
  assert!(jd2 == jd + 1.0);
  assert!(jd == ordinal(y, m, d) as f64 - 0.5);
  witness!(d == last_day(y, m), "month end");
  witness!(y % 100 == 0 && y >= 1600, "Gregorian century year");
  witness!(y < 1582, "Julian era");
}

/// 01.c'  the day count of every date equals refcal ordinal - 0.5 (one evaluation of the real formula).  With 01.r
/// (ordinal grows by one along `succ`, integers only) this gives "+1 per civil day" for every date.
/// p = [month, ylo, yhi]
pub fn c01c_ord(i: &mut In, p: &[i64]) {
  let m = p[0];
  let y = i.int(p[1], p[2]);
  let d = i.int(1, 31);
  i.assume(valid(y, m, d));
  let jd = jd_of(y, m, d);
  assert!(jd == ordinal(y, m, d) as f64 - 0.5);
  witness!(d == last_day(y, m), "month end");
  witness!(y == p[2], "last year of the window");
  witness!(y == p[1], "first year of the window");
}

/// 01.d  every day number maps to a constructible date whose day count is that number.  p = [nlo, nhi]
pub fn c01d_inverse(i: &mut In, p: &[i64]) {
  let n = i.int(p[0], p[1]);
  let x = JulianDay::from_julian_day(n as f64 - 0.5).get_solar_day();
  let (y, m, d) = (x.get_year() as i64, x.get_month() as i64, x.get_day() as i64);
  assert!(valid(y, m, d));
  assert!(x.get_julian_day().get_day() == n as f64 - 0.5);
  witness!(true, "end reached");
}

/// 01.e  date -> day count -> date is the identity.  p = [month, ylo, yhi]
pub fn c01e_roundtrip(i: &mut In, p: &[i64]) {
  let m = if p[0] == 0 { i.int(1, 12) } else { p[0] };
  let y = i.int(p[1], p[2]);
  let d = i.int(1, 31);
  i.assume(valid(y, m, d));
  let z = sd(y, m, d).get_julian_day().get_solar_day();
  assert!(z.get_year() as i64 == y && z.get_month() as i64 == m && z.get_day() as i64 == d);
  witness!(d == last_day(y, m), "month end");
}

/// 01.f1  before/after = lexicographic (= chronological, by 01.r) order; irreflexive, asymmetric.  p = []
pub fn c01f_order(i: &mut In, _p: &[i64]) {
  let (ya, ma, da) = (i.int(1, 9999), i.int(1, 12), i.int(1, 31));
  let (yb, mb, db) = (i.int(1, 9999), i.int(1, 12), i.int(1, 31));
  i.assume(valid(ya, ma, da) && valid(yb, mb, db));
  let a = sd(ya, ma, da);
  let b = sd(yb, mb, db);
  let lt = before((ya, ma, da), (yb, mb, db));
  let gt = before((yb, mb, db), (ya, ma, da));
  assert!(a.is_before(b) == lt);
  assert!(a.is_after(b) == gt);
  assert!(b.is_after(a) == lt);
  assert!(b.is_before(a) == gt);
  assert!((a == b) == (!lt && !gt));
  witness!(lt && ya == yb && ma == mb, "same month, earlier day");
  witness!(gt && ya == yb && ma > mb, "same year, later month");
  witness!(!lt && !gt, "equal");
}

/// 01.f2  subtract = difference of the two day counts, for any two dates.  SolarDay::get_julian_day is replaced by
/// the ghost stand-in (an arbitrary strictly monotone half-integer day count, which is what 01.c + 01.r prove the
/// real one to be); natively the real function runs.  p = []
pub fn c01f_subtract(i: &mut In, _p: &[i64]) {
  let (ya, ma, da) = (i.int(1, 9999), i.int(1, 12), i.int(1, 31));
  let (yb, mb, db) = (i.int(1, 9999), i.int(1, 12), i.int(1, 31));
  i.assume(valid(ya, ma, da) && valid(yb, mb, db));
  let a = sd(ya, ma, da);
  let b = sd(yb, mb, db);
  let r = a.subtract(b) as i64;
  let oa = crate::env::ghost_ord(ya, ma, da);
  let ob = crate::env::ghost_ord(yb, mb, db);
  assert!(r == oa - ob);
  assert!((r < 0) == before((ya, ma, da), (yb, mb, db)));
  assert!((r == 0) == (a == b));
  witness!(r < -3000000, "far apart, negative");
  witness!(r == 1, "adjacent");
}

/// 01.g1  JulianDay::next on half-integer day counts is exact integer addition.  p = []
pub fn c01g_next_exact(i: &mut In, _p: &[i64]) {
  let a = i.int(ORD_MIN, ORD_MAX);
  let n = i.int(-(ORD_MAX - ORD_MIN), ORD_MAX - ORD_MIN);
  i.assume(ORD_MIN <= a + n && a + n <= ORD_MAX);
  let r = JulianDay::from_julian_day(a as f64 - 0.5).next(n as isize).get_day();
  assert!(r == (a + n) as f64 - 0.5);
  witness!(n < 0, "backwards");
}

/// 01.g2  x.next(n) lands on ordinal(x)+n, real code end to end.  p = [ylo, yhi, nmax]
pub fn c01g_next(i: &mut In, p: &[i64]) {
  let (y, m, d) = (i.int(p[0], p[1]), i.int(1, 12), i.int(1, 31));
  let n = i.int(-p[2], p[2]);
  i.assume(valid(y, m, d));
  let o = ordinal(y, m, d);
  i.assume(ORD_MIN <= o + n && o + n <= ORD_MAX);
  let z = sd(y, m, d).next(n as isize);
  let (zy, zm, zd) = (z.get_year() as i64, z.get_month() as i64, z.get_day() as i64);
  assert!(valid(zy, zm, zd));
  assert!(ordinal(zy, zm, zd) == o + n);
  witness!(n < 0 && zy < y, "back across a year end");
  witness!(n == 0, "zero step");
}

/// 01.h  month length, year length, leap rule.  p = []
pub fn c01h_lengths(i: &mut In, _p: &[i64]) {
  let y = i.int(1, 9999);
  let m = i.int(1, 12);
  let sy = SolarYear::from_year(y as isize);
  let sm = SolarMonth::from_ym(y as isize, m as usize);
  assert!(sy.is_leap() == is_leap(y));
  assert!(sy.get_day_count() as i64 == days_in_year(y));
  assert!(sm.get_day_count() as i64 == days_in_month(y, m));
  assert!(sm.get_index_in_year() as i64 == m - 1);
  witness!(y == 1582 && m == 10, "cut-over month");
  witness!(y == 1700 && m == 2, "1700 is common");
  witness!(y == 1500 && m == 2, "1500 is leap");
}

/// 01.h1  day of year = day count minus day count of January 1 (ghost stand-in for get_julian_day, see 01.f2).  p = []
pub fn c01h_doy(i: &mut In, _p: &[i64]) {
  let (y, m, d) = (i.int(1, 9999), i.int(1, 12), i.int(1, 31));
  i.assume(valid(y, m, d));
  let x = sd(y, m, d);
  let k = x.get_index_in_year() as i64;
  assert!(k == crate::env::ghost_ord(y, m, d) - crate::env::ghost_ord(y, 1, 1));
  assert!((k == 0) == (m == 1 && d == 1));
  witness!(k > 300, "late in the year");
}

/// 01.h1'  day of year against the reference calendar itself (get_julian_day = refcal ordinal - 0.5, proved by 01.c):
/// catches re-implementations of the day of year that do not go through the day count.  p = [ylo, yhi]
pub fn c01h_doy_cal(i: &mut In, p: &[i64]) {
  let (y, m, d) = (i.int(p[0], p[1]), i.int(1, 12), i.int(1, 31));
  i.assume(valid(y, m, d));
  let k = sd(y, m, d).get_index_in_year() as i64;
  // position in the year from the month lengths
  let mut exp = pos_in_month(y, m, d) - 1;
  let mut mm = 1;
  while mm < 12 { if mm < m { exp += days_in_month(y, mm); } mm += 1; }
  assert!(k == exp);
  witness!(p[0] > 1582 || p[1] < 1582 || (y == 1582 && m == 10 && d == 20), "after the gap (windows containing 1582)");
  witness!(m == 12 && d == 31, "last day of a year");
}

/// 01.h2  refcal consistency: the month lengths of a year add up to the year length; ordinals of Jan 1 of
/// successive years differ by it.  p = []
pub fn c01h_year_sum(i: &mut In, _p: &[i64]) {
  let y = i.int(1, 9998);
  let mut s = 0;
  let mut m = 1;
  while m <= 12 { s += days_in_month(y, m); m += 1; }
  assert!(s == days_in_year(y));
  assert!(ordinal(y + 1, 1, 1) - ordinal(y, 1, 1) == s);
  witness!(y == 1582, "cut-over year");
}

/// 01.r  refcal lemma: ordinal(succ(x)) = ordinal(x) + 1.  p = [month]
pub fn c01r_refcal(i: &mut In, p: &[i64]) {
  let m = p[0];
  let y = i.int(1, 9999);
  let d = i.int(1, 31);
  i.assume(valid(y, m, d));
  i.assume(!(y == 9999 && m == 12 && d == 31));
  let (y2, m2, d2) = succ(y, m, d);
  assert!(valid(y2, m2, d2));
  assert!(ordinal(y2, m2, d2) == ordinal(y, m, d) + 1);
  assert!(before((y, m, d), (y2, m2, d2)));
  witness!(m != 10 || (y == 1582 && d == 4), "cut-over (month 10 only)");
}

pub fn registry() -> Vec<(&'static str, Body)> {
  vec![
    ("c01::c01a_accept", c01a_accept as Body),
    ("c01::c01a_ranges", c01a_ranges),
    ("c01::c01a_refuse", c01a_refuse),
    ("c01::c01b_anchor", c01b_anchor),
    ("c01::c01c_succ", c01c_succ),
    ("c01::c01d_inverse", c01d_inverse),
    ("c01::c01e_roundtrip", c01e_roundtrip),
    ("c01::c01f_order", c01f_order),
    ("c01::c01f_subtract", c01f_subtract),
    ("c01::c01c_ord", c01c_ord),
    ("c01::c01h_doy", c01h_doy),
    ("c01::c01h_doy_cal", c01h_doy_cal),
    ("c01::c01g_next_exact", c01g_next_exact),
    ("c01::c01g_next", c01g_next),
    ("c01::c01h_lengths", c01h_lengths),
    ("c01::c01h_year_sum", c01h_year_sum),
    ("c01::c01r_refcal", c01r_refcal),
  ]
}
