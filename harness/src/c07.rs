//! C07 — weekday anchor (the day pillar formula is engine B, kernel 07.c).  See DESIGN.md §5 C07.
use tyme4rs::tyme::jd::JulianDay;
use tyme4rs::tyme::lunar::LunarHour;
use crate::nd::In;
use crate::{witness, Body};

/// 07.a  JulianDay::get_week has index (floor(JD + 0.5) + 1) mod 7 for every Julian date in range, fractions included
/// (multiplicative spec: 7q + r = floor(JD + 0.5) + 1, 0 <= r < 7).  Real index_of.  p = []
pub fn c07a_weekday(i: &mut In, _p: &[i64]) {
  let x = i.f64();
  i.assume(x >= 1721423.5 && x < 5373484.5);
  let w = JulianDay::from_julian_day(x).get_week().get_index() as i64;
  let n = (x + 0.5) as i64;           // truncation = floor for positive values
  let q = i.int(0, 1 << 21);
  i.assume(7 * q <= n + 1 && n + 1 < 7 * q + 7);
  assert!(w == n + 1 - 7 * q);
  witness!(w == 6, "a Saturday");
}

/// 09.b  LunarHour::new refuses hour > 23, minute > 59, second > 59 (before it looks at the date).  p = []
pub fn c09b_refuse(i: &mut In, _p: &[i64]) {
  let (h, mi, s) = (i.int(0, 40), i.int(0, 80), i.int(0, 80));
  i.assume(h > 23 || mi > 59 || s > 59);
  let r = LunarHour::new(2020, 1, 1, h as usize, mi as usize, s as usize);
  assert!(r.is_err());
  witness!(h == 24 && mi == 0 && s == 0, "hour 24");
  std::mem::forget(r);
}

pub fn registry() -> Vec<(&'static str, Body)> {
  vec![("c07::c07a_weekday", c07a_weekday as Body), ("c07::c09b_refuse", c09b_refuse)]
}
