//! Stubs (Kani only) and their contracts.  Every stub used by a harness is listed in that check's evidence.
#![allow(dead_code)]

#[cfg(kani)]
use tyme4rs::tyme::jd::JulianDay;
#[cfg(kani)]
use tyme4rs::tyme::solar::SolarDay;
#[cfg(kani)]
use crate::refcal;

/// `std::fmt::format` on error paths: the string is an Err / panic payload that nothing inspects.
#[cfg(kani)]
pub fn fmt_empty(_args: std::fmt::Arguments<'_>) -> String {
  String::new()
}

/// Stand-in for `SolarDay::get_julian_day`, discharged by obligation 01.c (JD(x) = ordinal(x) - 0.5 for every date).
#[cfg(kani)]
pub fn sd_jd_ord(s: &SolarDay) -> JulianDay {
  JulianDay::from_julian_day(refcal::ordinal(s.get_year() as i64, s.get_month() as i64, s.get_day() as i64) as f64 - 0.5)
}

// ---- ghost day count -------------------------------------------------------------------------------------------
// Relational, forward-only stand-in for `SolarDay::get_julian_day`: an arbitrary half-integer day count that is a
// strictly increasing function of the date.  That is exactly what 01.c + 01.r establish about the real function, so
// harnesses above the civil kernel may use it without re-running the float formula.  The values handed out are kept
// in a small table so that the harness can refer to them (`ghost_ord`).
#[cfg(kani)]
pub const GH_CAP: usize = 14;
#[cfg(kani)]
pub static mut GH_USED: [bool; GH_CAP] = [false; GH_CAP];
#[cfg(kani)]
pub static mut GH_KEY: [(i64, i64, i64); GH_CAP] = [(0, 0, 0); GH_CAP];
#[cfg(kani)]
pub static mut GH_VAL: [i64; GH_CAP] = [0; GH_CAP];

/// loops below run over the constant capacity only (never over a count that could become symbolic after a merge)
#[cfg(kani)]
pub fn ghost_ord(y: i64, m: i64, d: i64) -> i64 {
  unsafe {
    let mut found = false;
    let mut val = 0i64;
    let mut k = 0;
    while k < GH_CAP {
      if GH_USED[k] && GH_KEY[k] == (y, m, d) { found = true; val = GH_VAL[k]; }
      k += 1;
    }
    if found { return val; }
    let v: i64 = kani::any();
    kani::assume(refcal::ORD_MIN <= v && v <= refcal::ORD_MAX);
    let mut k = 0;
    while k < GH_CAP {
      if GH_USED[k] {
        kani::assume(refcal::before(GH_KEY[k], (y, m, d)) == (GH_VAL[k] < v));
        kani::assume(refcal::before((y, m, d), GH_KEY[k]) == (v < GH_VAL[k]));
      }
      k += 1;
    }
    let mut inserted = false;
    let mut k = 0;
    while k < GH_CAP {
      if !inserted && !GH_USED[k] { GH_USED[k] = true; GH_KEY[k] = (y, m, d); GH_VAL[k] = v; inserted = true; }
      k += 1;
    }
    assert!(inserted, "ghost table capacity");
    v
  }
}
#[cfg(not(kani))]
pub fn ghost_ord(y: i64, m: i64, d: i64) -> i64 { crate::refcal::ordinal(y, m, d) }

#[cfg(kani)]
pub fn sd_jd_ghost(s: &SolarDay) -> JulianDay {
  JulianDay::from_julian_day(ghost_ord(s.get_year() as i64, s.get_month() as i64, s.get_day() as i64) as f64 - 0.5)
}

// ---- ghost SolarDay::next --------------------------------------------------------------------------------------
// Stand-in for `<SolarDay as Tyme>::next(n)`: records n and returns an arbitrary valid date.  That the real function
// returns exactly the date n civil days later is 01.c/01.d/01.g; harnesses that use this stand-in only need *which*
// n is passed and that the result is used unchanged.
#[cfg(kani)]
pub static mut GN_CALLS: usize = 0;
#[cfg(kani)]
pub static mut GN_ARG: i64 = 0;
#[cfg(kani)]
pub static mut GN_RES: (i64, i64, i64) = (0, 0, 0);

#[cfg(kani)]
pub fn sd_next_ghost(_s: &SolarDay, n: isize) -> SolarDay {
  let (y, m, d): (i64, i64, i64) = (kani::any(), kani::any(), kani::any());
  kani::assume(refcal::valid(y, m, d));
  unsafe {
    GN_CALLS += 1;
    GN_ARG = n as i64;
    GN_RES = (y, m, d);
  }
  SolarDay::from_ymd(y as isize, m as usize, d as usize)
}

/// (days handed to SolarDay::next, date it returned).  `zero_step`: next(0) does not call SolarDay::next at all.
#[cfg(kani)]
pub fn ghost_next(from: (i64, i64, i64), _to: (i64, i64, i64), zero_step: bool) -> (i64, (i64, i64, i64)) {
  unsafe {
    if zero_step { assert!(GN_CALLS == 0); return (0, from); }
    assert!(GN_CALLS == 1);
    (GN_ARG, GN_RES)
  }
}
#[cfg(not(kani))]
pub fn ghost_next(from: (i64, i64, i64), to: (i64, i64, i64), _zero_step: bool) -> (i64, (i64, i64, i64)) {
  (crate::refcal::ordinal(to.0, to.1, to.2) - crate::refcal::ordinal(from.0, from.1, from.2), to)
}

// ---- relational spec of AbstractCulture::index_of (discharged by engine B for every size in the source) ------
#[cfg(kani)]
pub static mut IX_N: usize = 0;
#[cfg(kani)]
pub static mut IX_LOG: [(i64, i64, i64); 8] = [(0, 0, 0); 8];

#[cfg(kani)]
pub fn index_of_spec(_s: &tyme4rs::tyme::AbstractCulture, index: isize, size: usize) -> usize {
  let r: usize = kani::any();
  let k: isize = kani::any();
  kani::assume(size > 0 && r < size);
  kani::assume(-(1isize << 40) < k && k < (1isize << 40));
  kani::assume(-(1isize << 45) < index && index < (1isize << 45));
  kani::assume(k * (size as isize) + (r as isize) == index);
  unsafe {
    if IX_N < 8 { IX_LOG[IX_N] = (index as i64, size as i64, r as i64); }
    IX_N += 1;
  }
  r
}
#[cfg(kani)]
pub fn ix_calls() -> usize { unsafe { IX_N } }
#[cfg(kani)]
pub fn ix_log(k: usize) -> (i64, i64, i64) { unsafe { IX_LOG[k] } }

// ---- ENV-A: the astronomical kernel as an arbitrary environment -------------------------------------------------
/// `ShouXingUtil::calc_shuo` / `calc_qi`: any integral day offset from J2000 whose Julian day lies in the supported
/// range.  Not even functional: used where only (year, month, leap, index) matter.
#[cfg(kani)]
pub fn astro_any(_pjd: f64) -> f64 {
  let k: i32 = kani::any();
  kani::assume(k >= -730000 && k <= 2921000);
  k as f64
}

// ---- ENV-L: leap-month table as a symbolic window ---------------------------------------------------------------
pub const LEAP_CAP: usize = 8;
#[cfg(kani)]
pub static mut LEAP_Y0: i64 = 0;
#[cfg(kani)]
pub static mut LEAP_W: usize = 0;
#[cfg(kani)]
pub static mut LEAP: [usize; LEAP_CAP] = [0; LEAP_CAP];

/// draws the leap months of years y0 .. y0+w-1 (each 0..12) and installs them; returns (shift, table).  Natively the
/// real table is in force: the window is moved to a place where the real years have exactly this pattern
/// (shift = distance), or the replay is reported as unrealised.
pub fn leap_window(i: &mut crate::nd::In, y0: i64, w: usize) -> (i64, [usize; LEAP_CAP]) {
  let mut t = [0usize; LEAP_CAP];
  let mut k = 0;
  while k < w { t[k] = i.int(0, 12) as usize; k += 1; }
  #[cfg(kani)]
  unsafe { LEAP_Y0 = y0; LEAP_W = w; LEAP = t; }
  #[cfg(kani)]
  return (0, t);
  #[cfg(not(kani))]
  {
    use tyme4rs::tyme::lunar::LunarYear;
    let real = |y: i64| LunarYear::from_year(y as isize).get_leap_month();
    let fits = |b: i64| (0..w).all(|k| real(b + k as i64) == t[k]);
    if fits(y0) { return (0, t); }
    let mut b = 1;
    while b + (w as i64) < 9990 {
      if fits(b) { return (b - y0, t); }
      b += 1;
    }
    std::panic::panic_any(crate::nd::Unrealised);
  }
}

#[cfg(kani)]
pub fn leap_model(y: &tyme4rs::tyme::lunar::LunarYear) -> usize {
  unsafe {
    let k = y.get_year() as i64 - LEAP_Y0;
    kani::assume(k >= 0 && (k as usize) < LEAP_W);   // stated bound: steps that leave the window are outside the claim
    LEAP[k as usize]
  }
}

/// `LunarMonth::from_ym` without the process-wide memo (C10's subject): the real constructor still runs.
#[cfg(kani)]
pub fn from_ym_new(year: isize, month: isize) -> tyme4rs::tyme::lunar::LunarMonth {
  tyme4rs::tyme::lunar::LunarMonth::new(year, month).unwrap()
}

// ---- SolarDay::next by walking the reference calendar ----------------------------------------------------------
/// Stand-in for `<SolarDay as Tyme>::next(n)` above the civil kernel: n applications of the reference calendar's
/// successor / predecessor.  01.c + 01.d + 01.g prove that the real function (a float round trip through the day
/// count) returns exactly this date.  Targets outside 0001..9999 are assumed away (the real one panics there).
#[cfg(kani)]
pub fn sd_next_walk(s: &SolarDay, n: isize) -> SolarDay {
  let (mut y, mut m, mut d) = (s.get_year() as i64, s.get_month() as i64, s.get_day() as i64);
  let mut k = n;
  while k > 0 {
    kani::assume(!(y == 9999 && m == 12 && d == 31));
    let t = refcal::succ(y, m, d);
    y = t.0; m = t.1; d = t.2;
    k -= 1;
  }
  while k < 0 {
    kani::assume(!(y == 1 && m == 1 && d == 1));
    let t = refcal::pred(y, m, d);
    y = t.0; m = t.1; d = t.2;
    k += 1;
  }
  SolarDay::from_ymd(y as isize, m as usize, d as usize)
}

/// `SolarDay::next` as used by month listings: from the first of a month, n < (days in the month) steps stay in
/// the month and land on the (n+1)-th existing date.  Justified by lemma 13.L (one `succ` step moves from position
/// pos to pos+1 inside a month) by induction on n; any other call is reported as a failed check.
#[cfg(kani)]
pub fn sd_next_in_month(s: &SolarDay, n: isize) -> SolarDay {
  let (y, m, d) = (s.get_year() as i64, s.get_month() as i64, s.get_day() as i64);
  if d == 1 && n >= 0 && (n as i64) < refcal::days_in_month(y, m) {
    return SolarDay::from_ymd(y as isize, m as usize, refcal::day_at_pos(y, m, n as i64 + 1) as usize);
  }
  // any other use is outside this stand-in's contract: flagged, never silently assumed away
  assert!(false, "SolarDay::next used outside the month-listing contract (not from the 1st, or beyond the month)");
  SolarDay::from_ymd(y as isize, m as usize, d as usize)
}

// ---- day counts relative to a base month (no table, no loops over symbolic counts, no division) --------------------
/// The harness fixes a base month (BASE_Y, BASE_M) and an arbitrary day count BASE_O for its first day.  Within four
/// months of it, `SolarDay::get_julian_day` is BASE_O + (days between) - 0.5, the days between being the sum of month
/// lengths (`refcal::rel_offset`; 01.c + 01.r + 13.L).  Because BASE_O is arbitrary the first of the month falls on
/// an arbitrary weekday.  Dates further away are reported as a failed check (contract), never assumed away.
#[cfg(kani)]
pub static mut BASE_Y: i64 = 0;
#[cfg(kani)]
pub static mut BASE_M: i64 = 0;
#[cfg(kani)]
pub static mut BASE_O: i64 = 0;

/// returns the arbitrary day count chosen for (y, m, 1); natively the real one
pub fn set_base(i: &mut crate::nd::In, y: i64, m: i64) -> i64 {
  let o = i.int(crate::refcal::ORD_MIN + 200, crate::refcal::ORD_MAX - 200);
  #[cfg(kani)]
  unsafe { BASE_Y = y; BASE_M = m; BASE_O = o; }
  #[cfg(kani)]
  return o;
  #[cfg(not(kani))]
  { let _ = o; return crate::refcal::ordinal(y, m, 1); }
}

/// Variant with the weekday of the 1st fixed by the job (wd = 0..6, one job per weekday): the day count of the 1st is the
/// concrete representative 2451544 + k with weekday wd.  This is a stated bound on the magnitude only; that the weekday
/// function depends on nothing but the day count's residue, for every day count in range, is obligation 07.a.
/// Returns (day count of the 1st, year to use).  Natively the real calendar is in force: the year is moved to the
/// nearest year of the same kind (leap status, same side of 1582) whose month starts on that weekday.
pub fn set_base_wd(i: &mut crate::nd::In, y: i64, m: i64, wd: i64) -> (i64, i64) {
  let _ = &i;
  #[cfg(kani)]
  {
    // 2451545 is a Saturday (2000-01-01): weekday index (o + 1) % 7
    let mut o = 2451544i64;
    let mut k = 0;
    while k < 7 { if (o + 1) % 7 != wd { o += 1; } k += 1; }
    unsafe { BASE_Y = y; BASE_M = m; BASE_O = o; }
    return (o, y);
  }
  #[cfg(not(kani))]
  {
    use crate::refcal::{is_leap, ordinal};
    let ok = |yy: i64| yy >= 1 && yy <= 9999 && is_leap(yy) == is_leap(y) && (yy == 1582) == (y == 1582) && (yy < 1582) == (y < 1582) && (ordinal(yy, m, 1) + 1) % 7 == wd;
    let mut k = 0;
    while k < 3000 {
      if ok(y + k) { return (ordinal(y + k, m, 1), y + k); }
      if ok(y - k) { return (ordinal(y - k, m, 1), y - k); }
      k += 1;
    }
    std::panic::panic_any(crate::nd::Unrealised);
  }
}

/// day count of a date near the base month (harness side)
pub fn rel_ord(y: i64, m: i64, d: i64) -> i64 {
  #[cfg(kani)]
  unsafe {
    match refcal::rel_offset(BASE_Y, BASE_M, y, m, d) { Some(k) => BASE_O + k, None => { assert!(false, "date outside the base-month contract"); 0 } }
  }
  #[cfg(not(kani))]
  { crate::refcal::ordinal(y, m, d) }
}

#[cfg(kani)]
pub fn sd_jd_rel(s: &SolarDay) -> JulianDay {
  JulianDay::from_julian_day(rel_ord(s.get_year() as i64, s.get_month() as i64, s.get_day() as i64) as f64 - 0.5)
}

// ---- SolarDay::next for small steps ---------------------------------------------------------------------------------
/// Stand-in for `<SolarDay as Tyme>::next(n)`, |n| <= 45: the closed form `refcal::near` (lemma 14.L: it is n successor
/// / predecessor steps; 01.c/01.d/01.g: so is the real function).  Larger steps are reported as a failed check, never
/// assumed away; results outside 0001..9999 (where the real function panics) are outside the claim.
#[cfg(kani)]
pub fn sd_next_near(s: &SolarDay, n: isize) -> SolarDay {
  let (y, m, d) = (s.get_year() as i64, s.get_month() as i64, s.get_day() as i64);
  assert!(-45 <= n && n <= 45, "SolarDay::next used with a step outside the small-step contract");
  match refcal::near(y, m, d, n as i64) {
    Some((zy, zm, zd)) => SolarDay::from_ymd(zy as isize, zm as usize, zd as usize),
    None => { kani::assume(false); SolarDay::from_ymd(1, 1, 1) }
  }
}

/// `AbstractCulture::index_of` for small arguments as a 32-bit computation (engine B proves the real 64-bit function
/// equal to the mathematical index mod size for every size in the source); arguments beyond 2^31 are a failed check.
#[cfg(kani)]
pub fn index_of_small(_s: &tyme4rs::tyme::AbstractCulture, index: isize, size: usize) -> usize {
  assert!(-(1isize << 30) < index && index < (1isize << 30) && size > 0 && size < 4096, "index_of outside the small-argument contract");
  let n = size as i32;
  (((index as i32 % n) + n) % n) as usize
}

// ---- pillars built by name: format sink + decode model of SixtyCycle::from_name -------------------------------------
/// `std::fmt::format` on data paths: the real `Display` code writes into a fixed 24-byte buffer through
/// `core::fmt::write`; longer output is truncated (only error messages are longer) — consumers check the length.
#[cfg(kani)]
struct Sink { buf: [u8; 24], len: usize }
#[cfg(kani)]
impl core::fmt::Write for Sink {
  fn write_str(&mut self, s: &str) -> core::fmt::Result {
    let b = s.as_bytes();
    let mut k = 0;
    while k < b.len() {
      if self.len < 24 { self.buf[self.len] = b[k]; self.len += 1; }
      k += 1;
    }
    Ok(())
  }
}
#[cfg(kani)]
pub fn fmt_sink(args: std::fmt::Arguments<'_>) -> String {
  let mut s = Sink { buf: [0u8; 24], len: 0 };
  let _ = core::fmt::write(&mut s, args);
  let mut v: Vec<u8> = Vec::with_capacity(24);
  let mut k = 0;
  while k < 24 { if k < s.len { v.push(s.buf[k]); } k += 1; }
  unsafe { String::from_utf8_unchecked(v) }
}

/// Model of `SixtyCycle::from_name`: decode the stem character and the branch character by byte comparison with the
/// source's own name tables, combine them by the Chinese remainder theorem, build the pillar by index.  Panics
/// (like the real function) if a character is unknown or the parities differ.  Justified by lemma T60 (the sixty
/// pillar names are stem[k mod 10] ++ branch[k mod 12], all characters distinct, 3 bytes each) + the first-match
/// search of `LoopTyme::new` (20 lines, trusted; exercised by most of the test suite).
#[cfg(kani)]
pub fn sixty_from_name_model(name: &str) -> tyme4rs::tyme::sixtycycle::SixtyCycle {
  use tyme4rs::tyme::sixtycycle::{SixtyCycle, EARTH_BRANCH_NAMES, HEAVEN_STEM_NAMES};
  let b = name.as_bytes();
  assert!(b.len() == 6, "pillar name is not two 3-byte characters");
  let mut s: i64 = -1;
  let mut k = 0;
  while k < 10 {
    let n = HEAVEN_STEM_NAMES[k].as_bytes();
    if n[0] == b[0] && n[1] == b[1] && n[2] == b[2] { s = k as i64; }
    k += 1;
  }
  let mut e: i64 = -1;
  let mut k = 0;
  while k < 12 {
    let n = EARTH_BRANCH_NAMES[k].as_bytes();
    if n[0] == b[3] && n[1] == b[4] && n[2] == b[5] { e = k as i64; }
    k += 1;
  }
  assert!(s >= 0 && e >= 0, "unknown stem or branch character");
  assert!(s % 2 == e % 2, "illegal pillar: stem and branch of different polarity");
  SixtyCycle::from_index(((6 * s + 55 * e) % 60) as isize)
}

/// `LunarDay::from_ymd` in harnesses where the constructor must not be reached at all (refusal of invalid clock fields)
#[cfg(kani)]
pub fn lunar_day_never(_y: isize, _m: isize, _d: usize) -> tyme4rs::tyme::lunar::LunarDay {
  assert!(false, "the lunar day was constructed although the request had to be refused first");
  kani::assume(false);
  unreachable!()
}
