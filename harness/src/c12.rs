//! C12 — clock arithmetic and Julian date <-> clock.  See DESIGN.md §5 C12.
use tyme4rs::tyme::Tyme;
use tyme4rs::tyme::jd::JulianDay;
use tyme4rs::tyme::solar::{SolarDay, SolarTime};
use crate::nd::In;
use crate::refcal::*;
use crate::{witness, Body};

fn draw_date(i: &mut In, ylo: i64, yhi: i64) -> (i64, i64, i64) {
  let (y, m, d) = (i.int(ylo, yhi), i.int(1, 12), i.int(1, 31));
  i.assume(valid(y, m, d));
  (y, m, d)
}
fn draw_hms(i: &mut In) -> (i64, i64, i64) { (i.int(0, 23), i.int(0, 59), i.int(0, 59)) }
fn st(d: (i64, i64, i64), t: (i64, i64, i64)) -> SolarTime {
  SolarTime::from_ymd_hms(d.0 as isize, d.1 as usize, d.2 as usize, t.0 as usize, t.1 as usize, t.2 as usize)
}
fn secs(t: (i64, i64, i64)) -> i64 { t.0 * 3600 + t.1 * 60 + t.2 }
fn date_of(t: &SolarTime) -> (i64, i64, i64) { (t.get_year() as i64, t.get_month() as i64, t.get_day() as i64) }
fn hms_of(t: &SolarTime) -> (i64, i64, i64) { (t.get_hour() as i64, t.get_minute() as i64, t.get_second() as i64) }

/// 12.0  SolarTime::new accepts exactly hour 0..23, minute/second 0..59 on an existing date.  p = []
pub fn c12_accept(i: &mut In, _p: &[i64]) {
  let d = draw_date(i, 1, 9999);
  let (h, mi, s) = (i.int(0, 30), i.int(0, 70), i.int(0, 70));
  let r = SolarTime::new(d.0 as isize, d.1 as usize, d.2 as usize, h as usize, mi as usize, s as usize);
  assert!(r.is_ok() == (h <= 23 && mi <= 59 && s <= 59));
  if let Ok(t) = r { assert!(date_of(&t) == d && hms_of(&t) == (h, mi, s)); }
  witness!(h == 24, "hour 24 refused");
}

/// 12.a (engine A part)  t.next(n): the day count handed to SolarDay::next and the clock fields of the result satisfy
/// td*86400 + secs(u) = secs(t) + n with 0 <= secs(u) < 86400, and the result is built on exactly the day
/// SolarDay::next returned.  SolarDay::next is the ghost stand-in (records its argument, returns any valid date);
/// natively the real one runs and td is the real ordinal difference.  p = [nmax]
pub fn c12a_next(i: &mut In, p: &[i64]) {
  let d = draw_date(i, 1, 9999);
  let t = draw_hms(i);
  let n = i.int(-p[0], p[0]);
  let x = st(d, t);
  let u = x.next(n as isize);
  let (td, z) = crate::env::ghost_next(d, date_of(&u), n == 0);
  let (uh, um, us) = hms_of(&u);
  assert!(date_of(&u) == z);
  assert!(0 <= uh && uh < 24 && 0 <= um && um < 60 && 0 <= us && us < 60);
  assert!(td * 86400 + secs((uh, um, us)) == secs(t) + n);
  witness!(n < 0 && td < 0, "back across midnight");
  witness!(n > 86400 && td > 0, "more than a day ahead");
  witness!(n == 0, "zero step");
}

/// 12.a'  the same on the reference calendar instead of a ghost: SolarDay::next is the small-step closed form
/// (refcal::near, lemma 14.L), so the date of the result must be the date td days from the start, td being the day
/// carry of the clock arithmetic.  Catches shortcuts that bypass SolarDay::next (e.g. day + td inside a month with
/// missing days).  p = [nmax (seconds, < 45 days), ylo, yhi]
pub fn c12a_next_cal(i: &mut In, p: &[i64]) {
  let d = draw_date(i, p[1], p[2]);
  let t = draw_hms(i);
  let n = i.int(-p[0], p[0]);
  // td = floor((secs(t) + n) / 86400), stated multiplicatively
  let td = i.int(-46, 46);
  let rest = secs(t) + n - td * 86400;
  i.assume(0 <= rest && rest < 86400);
  let x = st(d, t);
  let u = x.next(n as isize);
  match near(d.0, d.1, d.2, td) {
    Some(z) => {
      assert!(date_of(&u) == z);
      assert!(secs(hms_of(&u)) == rest);
    }
    None => {}
  }
  witness!(d == (1582, 10, 4) && td == 1, "across the 1582 gap");
  witness!(td == -1 && d.2 == 1, "back into the previous month");
}

/// 12.b  a.subtract(b) = 86400 * (day count difference) + clock difference (ghost day count, see 01.f2).  p = []
pub fn c12b_subtract(i: &mut In, _p: &[i64]) {
  let da = draw_date(i, 1, 9999);
  let ta = draw_hms(i);
  let db = draw_date(i, 1, 9999);
  let tb = draw_hms(i);
  let a = st(da, ta);
  let b = st(db, tb);
  let r = a.subtract(b) as i64;
  let oa = crate::env::ghost_ord(da.0, da.1, da.2);
  let ob = crate::env::ghost_ord(db.0, db.1, db.2);
  assert!(r == 86400 * (oa - ob) + secs(ta) - secs(tb));
  witness!(oa > ob && secs(ta) < secs(tb), "later day, earlier clock");
  witness!(r < 0, "negative difference");
}

/// 12.c  before/after = lexicographic order of (date, h, m, s), which is the sign of 12.b.  p = []
pub fn c12c_order(i: &mut In, _p: &[i64]) {
  let da = draw_date(i, 1, 9999);
  let ta = draw_hms(i);
  let db = draw_date(i, 1, 9999);
  let tb = draw_hms(i);
  let a = st(da, ta);
  let b = st(db, tb);
  let lt = before(da, db) || (da == db && before(ta, tb));
  let gt = before(db, da) || (da == db && before(tb, ta));
  assert!(a.is_before(b) == lt);
  assert!(a.is_after(b) == gt);
  assert!(b.is_before(a) == gt);
  assert!(b.is_after(a) == lt);
  assert!((a == b) == (!lt && !gt));
  witness!(da == db && ta.0 == tb.0 && ta.1 == tb.1 && lt, "same minute");
  witness!(before(da, db) && before(tb, ta), "earlier day, later clock");
}

/// 12.d  every Julian date in the window, fractions included, yields a constructible instant within half a second
/// (+1 ms slack for the float round trip).  p = [nlo, nhi]: x in [nlo - 0.5, nhi + 0.5)
pub fn c12d_frac(i: &mut In, p: &[i64]) {
  let x = i.f64();
  i.assume(x >= p[0] as f64 - 0.5 && x < p[1] as f64 + 0.5);
  if p.len() > 2 {
    // hour slice [h, h+1) of some day of the window (a split of the same obligation, to keep each query small)
    let dn = i.int(p[0], p[1]);
    let base = dn as f64 - 0.5;
    i.assume(x >= base + (p[2] as f64) / 24.0 && x < base + ((p[2] + 1) as f64) / 24.0);
  }
  // beyond 9999-12-31 23:59:59.5 the rounded instant is outside the supported range
  i.assume(x < 5373484.5 - 0.5 / 86400.0);
  let t = JulianDay::from_julian_day(x).get_solar_time();
  let back = t.get_julian_day().get_day();
  let err = (back - x) * 86400.0;
  assert!(err <= 0.501 && err >= -0.501);
  witness!(p.len() > 2 && p[2] != 23 || (t.get_hour() == 0 && t.get_minute() == 0 && t.get_second() == 0 && back > x), "rounded up to midnight (hour 23 slice / unsplit)");
  witness!(t.get_second() == 59, "second 59");
}

/// 12.e  instant -> Julian date -> instant is the identity.  p = [ylo, yhi, month (0 = symbolic)]
pub fn c12e_roundtrip(i: &mut In, p: &[i64]) {
  let y = i.int(p[0], p[1]);
  let m = if p[2] == 0 { i.int(1, 12) } else { p[2] };
  let d = i.int(1, 31);
  i.assume(valid(y, m, d));
  let t = if p.len() > 3 { (p[3], i.int(0, 59), i.int(0, 59)) } else { draw_hms(i) };
  let a = st((y, m, d), t);
  let b = a.get_julian_day().get_solar_time();
  assert!(date_of(&b) == (y, m, d));
  assert!(hms_of(&b) == t);
  witness!(t.1 == 59 && t.2 == 59 && d == last_day(y, m), "last second of an hour on the last day of a month");
  witness!(t.1 == 0 && t.2 == 0, "full hour");
}

pub fn registry() -> Vec<(&'static str, Body)> {
  vec![
    ("c12::c12_accept", c12_accept as Body),
    ("c12::c12a_next", c12a_next),
    ("c12::c12a_next_cal", c12a_next_cal),
    ("c12::c12b_subtract", c12b_subtract),
    ("c12::c12c_order", c12c_order),
    ("c12::c12d_frac", c12d_frac),
    ("c12::c12e_roundtrip", c12e_roundtrip),
  ]
}
