#![allow(unused_imports)]
pub mod nd;
pub mod refcal;
pub mod env;
pub mod c01;
pub mod c12;
pub mod c11;
pub mod c13;
pub mod c14;
pub mod c19;
pub mod c07;
pub mod pillar;
pub mod xp;

#[cfg(kani)]
mod gen;

use nd::In;

pub type Body = fn(&mut In, &[i64]);

/// bodies by name, for the native replayer
pub fn registry() -> Vec<(&'static str, Body)> {
  let mut v: Vec<(&'static str, Body)> = Vec::new();
  v.extend(c01::registry());
  v.extend(c12::registry());
  v.extend(c11::registry());
  v.extend(c13::registry());
  v.extend(c14::registry());
  v.extend(c19::registry());
  v.extend(c07::registry());
  v.extend(pillar::registry());
  v.extend(xp::registry());
  v
}
