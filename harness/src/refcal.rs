//! Reference civil calendar, written from the calendar's definition (integers only, no Meeus float formula):
//! Julian calendar up to 1582-10-04, Gregorian from 1582-10-15, the ten days in between do not exist.

/// leap rule of the calendar in force at the end of February of year y
pub fn is_leap(y: i64) -> bool {
  if y <= 1582 { y % 4 == 0 } else { (y % 4 == 0 && y % 100 != 0) || y % 400 == 0 }
}

/// nominal number of the last day of month m (31 for October 1582: 1582-10-31 exists)
pub fn last_day(y: i64, m: i64) -> i64 {
  match m {
    1 | 3 | 5 | 7 | 8 | 10 | 12 => 31,
    4 | 6 | 9 | 11 => 30,
    _ => if is_leap(y) { 29 } else { 28 },
  }
}

/// number of dates that exist in month m
pub fn days_in_month(y: i64, m: i64) -> i64 {
  if y == 1582 && m == 10 { 21 } else { last_day(y, m) }
}

pub fn days_in_year(y: i64) -> i64 {
  if y == 1582 { 355 } else if is_leap(y) { 366 } else { 365 }
}

pub fn valid(y: i64, m: i64, d: i64) -> bool {
  1 <= y && y <= 9999 && 1 <= m && m <= 12 && 1 <= d && d <= last_day(y, m)
    && !(y == 1582 && m == 10 && 5 <= d && d <= 14)
}

/// the civil day after (y, m, d); defined for valid dates
pub fn succ(y: i64, m: i64, d: i64) -> (i64, i64, i64) {
  if y == 1582 && m == 10 && d == 4 { (1582, 10, 15) }
  else if d < last_day(y, m) { (y, m, d + 1) }
  else if m < 12 { (y, m + 1, 1) }
  else { (y + 1, 1, 1) }
}

pub fn is_gregorian(y: i64, m: i64, d: i64) -> bool {
  y > 1582 || (y == 1582 && (m > 10 || (m == 10 && d >= 15)))
}

/// day number (Julian day number at noon) of a valid date: integer arithmetic on non-negative operands only
pub fn ordinal(y: i64, m: i64, d: i64) -> i64 {
  let a = if m <= 2 { 1 } else { 0 };
  let yy = y + 4800 - a;
  let mm = m + 12 * a - 3;
  let base = d + (153 * mm + 2) / 5 + 365 * yy + yy / 4;
  if is_gregorian(y, m, d) { base - yy / 100 + yy / 400 - 32045 } else { base - 32083 }
}

/// 1-based position of day d among the dates that exist in its month
pub fn pos_in_month(y: i64, m: i64, d: i64) -> i64 {
  if y == 1582 && m == 10 && d >= 15 { d - 10 } else { d }
}

/// lexicographic order on dates
pub fn before(a: (i64, i64, i64), b: (i64, i64, i64)) -> bool {
  a.0 < b.0 || (a.0 == b.0 && (a.1 < b.1 || (a.1 == b.1 && a.2 < b.2)))
}

pub const ORD_MIN: i64 = 1721424; // 0001-01-01
pub const ORD_MAX: i64 = 5373484; // 9999-12-31

/// the civil day before (y, m, d); defined for valid dates other than 0001-01-01
pub fn pred(y: i64, m: i64, d: i64) -> (i64, i64, i64) {
  if y == 1582 && m == 10 && d == 15 { (1582, 10, 4) }
  else if d > 1 { (y, m, d - 1) }
  else if m > 1 { (y, m - 1, last_day(y, m - 1)) }
  else { (y - 1, 12, 31) }
}

/// day number of the date at 1-based position `pos` among the existing dates of a month
pub fn day_at_pos(y: i64, m: i64, pos: i64) -> i64 {
  if y == 1582 && m == 10 && pos > 4 { pos + 10 } else { pos }
}

/// weekday index (0 = Sunday) from the day number
pub fn weekday(ord: i64) -> i64 { (ord + 1) % 7 }
