//! Reference civil calendar, written from the calendar's definition (integers only, no Meeus float formula):
//! Julian calendar up to 1582-10-04, Gregorian from 1582-10-15, the ten days in between do not exist.

/// leap rule of the calendar in force at the end of February of year y
pub fn is_leap(y: i64) -> bool {
  // years are 1..9999: 16-bit arithmetic keeps the solver's remainder circuits small (outside that range: not leap, never used)
  if y < 0 || y > 65535 { return false; }
  let v = y as u16;
  if y <= 1582 { v % 4 == 0 } else { (v % 4 == 0 && v % 100 != 0) || v % 400 == 0 }
}

/// nominal number of the last day of month m (31 for October 1582: 1582-10-31 exists)
pub fn last_day(y: i64, m: i64) -> i64 {
  match m {
    1 | 3 | 5 | 7 | 8 | 10 | 12 => 31,
    4 | 6 | 9 | 11 => 30,
    _ => if is_leap(y) { 29 } else { 28 },
  }
}

/// number of dates that exist in month m
pub fn days_in_month(y: i64, m: i64) -> i64 {
  if y == 1582 && m == 10 { 21 } else { last_day(y, m) }
}

pub fn days_in_year(y: i64) -> i64 {
  if y == 1582 { 355 } else if is_leap(y) { 366 } else { 365 }
}

pub fn valid(y: i64, m: i64, d: i64) -> bool {
  1 <= y && y <= 9999 && 1 <= m && m <= 12 && 1 <= d && d <= last_day(y, m)
    && !(y == 1582 && m == 10 && 5 <= d && d <= 14)
}

/// the civil day after (y, m, d); defined for valid dates
pub fn succ(y: i64, m: i64, d: i64) -> (i64, i64, i64) {
  if y == 1582 && m == 10 && d == 4 { (1582, 10, 15) }
  else if d < last_day(y, m) { (y, m, d + 1) }
  else if m < 12 { (y, m + 1, 1) }
  else { (y + 1, 1, 1) }
}

pub fn is_gregorian(y: i64, m: i64, d: i64) -> bool {
  y > 1582 || (y == 1582 && (m > 10 || (m == 10 && d >= 15)))
}

/// day number (Julian day number at noon) of a valid date: integer arithmetic on non-negative operands only
pub fn ordinal(y: i64, m: i64, d: i64) -> i64 {
  let a = if m <= 2 { 1 } else { 0 };
  let yy = y + 4800 - a;
  let mm = m + 12 * a - 3;
  let base = d + (153 * mm + 2) / 5 + 365 * yy + yy / 4;
  if is_gregorian(y, m, d) { base - yy / 100 + yy / 400 - 32045 } else { base - 32083 }
}

/// 1-based position of day d among the dates that exist in its month
pub fn pos_in_month(y: i64, m: i64, d: i64) -> i64 {
  if y == 1582 && m == 10 && d >= 15 { d - 10 } else { d }
}

/// lexicographic order on dates
pub fn before(a: (i64, i64, i64), b: (i64, i64, i64)) -> bool {
  a.0 < b.0 || (a.0 == b.0 && (a.1 < b.1 || (a.1 == b.1 && a.2 < b.2)))
}

pub const ORD_MIN: i64 = 1721424; // 0001-01-01
pub const ORD_MAX: i64 = 5373484; // 9999-12-31

/// the civil day before (y, m, d); defined for valid dates other than 0001-01-01
pub fn pred(y: i64, m: i64, d: i64) -> (i64, i64, i64) {
  if y == 1582 && m == 10 && d == 15 { (1582, 10, 4) }
  else if d > 1 { (y, m, d - 1) }
  else if m > 1 { (y, m - 1, last_day(y, m - 1)) }
  else { (y - 1, 12, 31) }
}

/// day number of the date at 1-based position `pos` among the existing dates of a month
pub fn day_at_pos(y: i64, m: i64, pos: i64) -> i64 {
  if y == 1582 && m == 10 && pos > 4 { pos + 10 } else { pos }
}

/// weekday index (0 = Sunday) from the day number
pub fn weekday(ord: i64) -> i64 { (ord + 1) % 7 }

fn next_month(y: i64, m: i64) -> (i64, i64) { if m == 12 { (y + 1, 1) } else { (y, m + 1) } }
fn prev_month(y: i64, m: i64) -> (i64, i64) { if m == 1 { (y - 1, 12) } else { (y, m - 1) } }

/// closed form of n successor / predecessor steps for small |n| (at most two month borders are crossed): None when the
/// result would leave 0001..9999 or lies further away.  Lemma 14.L ties it to `succ`/`pred` one step at a time.
pub fn near(y: i64, m: i64, d: i64, n: i64) -> Option<(i64, i64, i64)> {
  let pos = pos_in_month(y, m, d) + n;
  let dim = days_in_month(y, m);
  if pos >= 1 && pos <= dim { return Some((y, m, day_at_pos(y, m, pos))); }
  if pos > dim {
    let (y1, m1) = next_month(y, m);
    if y1 > 9999 { return None; }
    let p1 = pos - dim;
    let d1 = days_in_month(y1, m1);
    if p1 <= d1 { return Some((y1, m1, day_at_pos(y1, m1, p1))); }
    let (y2, m2) = next_month(y1, m1);
    if y2 > 9999 { return None; }
    let p2 = p1 - d1;
    if p2 <= days_in_month(y2, m2) { return Some((y2, m2, day_at_pos(y2, m2, p2))); }
    return None;
  }
  let (y1, m1) = prev_month(y, m);
  if y1 < 1 { return None; }
  let p1 = pos + days_in_month(y1, m1);
  if p1 >= 1 { return Some((y1, m1, day_at_pos(y1, m1, p1))); }
  let (y2, m2) = prev_month(y1, m1);
  if y2 < 1 { return None; }
  let p2 = p1 + days_in_month(y2, m2);
  if p2 >= 1 { return Some((y2, m2, day_at_pos(y2, m2, p2))); }
  None
}

/// day-count distance from (by, bm, 1) to the valid date (y, m, d), for dates at most 4 months away (None beyond):
/// the sum of the lengths of the months in between plus the position in the month.  By 13.L / 01.r this is the
/// number of successor steps between the two dates, i.e. their ordinal difference.
pub fn rel_offset(by: i64, bm: i64, y: i64, m: i64, d: i64) -> Option<i64> {
  let dm = (y - by) * 12 + (m - bm);
  if dm < -4 || dm > 4 { return None; }
  let mut off = pos_in_month(y, m, d) - 1;
  let (mut cy, mut cm) = (by, bm);
  let mut j = 0;
  while j < 4 {
    if j < dm { off += days_in_month(cy, cm); let t = next_month(cy, cm); cy = t.0; cm = t.1; }
    j += 1;
  }
  let (mut cy, mut cm) = (by, bm);
  let mut j = 0;
  while j < 4 {
    if j < -dm { let t = prev_month(cy, cm); cy = t.0; cm = t.1; off -= days_in_month(cy, cm); }
    j += 1;
  }
  Some(off)
}
