//! scratch probes (not part of any check)
use tyme4rs::tyme::Tyme;
use tyme4rs::tyme::solar::{SolarDay, SolarMonth};
use crate::nd::In;
use crate::refcal::*;
use crate::Body;

pub fn xp1(i: &mut In, p: &[i64]) {
  let y = i.int(p[0], p[1]);
  let m = if p[2] == 0 { i.int(1, 12) } else { p[2] };
  let sm = SolarMonth::from_ym(y as isize, m as usize);
  let days = sm.get_days();
  let n = days.len() as i64;
  assert!(n == days_in_month(y, m));
  if p[3] >= 1 {
    let x = days[0];
    assert!(x.get_day() == 1);
    let z = days[(n - 1) as usize];
    assert!(z.get_day() as i64 == day_at_pos(y, m, n));
  }
  std::mem::forget(days);
}

pub fn registry() -> Vec<(&'static str, Body)> { vec![("xp::xp1", xp1 as Body), ("xp::xp2", xp2), ("xp::xp3", xp3)] }

pub fn xp2(i: &mut In, p: &[i64]) {
  let y = i.int(1, 9999);
  let m = i.int(1, 12);
  let start = i.int(0, 6);
  let o1 = crate::env::set_base(i, y, m);
  let first = SolarDay::from_ymd(y as isize, m as usize, 1);
  if p[0] >= 1 {
    let wd1 = first.get_week().get_index() as i64;
    assert!(wd1 == ((o1 + 1) as u32 % 7) as i64);
  }
  if p[0] >= 2 {
    let sm = SolarMonth::from_ym(y as isize, m as usize);
    let c = sm.get_week_count(start as usize) as i64;
    assert!(c >= 4 && c <= 6);
  }
  if p[0] >= 3 {
    let f = first.next(i.int(-6, 35) as isize);
    assert!(f.get_day() >= 1);
  }
}

pub fn xp3(i: &mut In, p: &[i64]) {
  let (y, m, d) = (i.int(p[1], p[2]), i.int(1, 12), i.int(1, 31));
  i.assume(valid(y, m, d));
  let start = i.int(0, 6);
  let x = SolarDay::from_ymd(y as isize, m as usize, d as usize);
  let o1 = crate::env::set_base(i, y, m);
  let ox = crate::env::rel_ord(y, m, d);
  assert!(ox == o1 + pos_in_month(y, m, d) - 1);
  let w = x.get_solar_week(start as usize);
  assert!(w.get_year() as i64 == y && w.get_month() as i64 == m);
  if p[0] >= 2 {
    let f = w.get_first_day();
    let of = crate::env::rel_ord(f.get_year() as i64, f.get_month() as i64, f.get_day() as i64);
    assert!(of <= ox && ox <= of + 6);
    if p[0] >= 3 {
      assert!(f.get_week().get_index() as i64 == start);
    }
  }
  std::mem::forget(w);
}
