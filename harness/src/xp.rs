//! scratch probes (not part of any check)
use tyme4rs::tyme::Tyme;
use tyme4rs::tyme::solar::{SolarDay, SolarMonth};
use crate::nd::In;
use crate::refcal::*;
use crate::Body;

pub fn xp1(i: &mut In, p: &[i64]) {
  let y = i.int(p[0], p[1]);
  let m = if p[2] == 0 { i.int(1, 12) } else { p[2] };
  let sm = SolarMonth::from_ym(y as isize, m as usize);
  let days = sm.get_days();
  let n = days.len() as i64;
  assert!(n == days_in_month(y, m));
  if p[3] >= 1 {
    let x = days[0];
    assert!(x.get_day() == 1);
    let z = days[(n - 1) as usize];
    assert!(z.get_day() as i64 == day_at_pos(y, m, n));
  }
  std::mem::forget(days);
}

pub fn registry() -> Vec<(&'static str, Body)> { vec![("xp::xp1", xp1 as Body)] }
