//! Native replayer: runs a harness body against the real code (no stubs) on concrete inputs.
//! usage: replay <body> <p0,p1,..|-> <v0,v1,..|->     (values: u64 bit patterns, decimal)
//! exit 0 = property holds on this input, 1 = assertion failed / panic (reproduced), 3 = input not admissible,
//! 4 = the counterexample's symbolic environment is not realised by the real data
use std::panic;
use tyme_verif_harness::nd::{AssumeFailed, In, Unrealised};

fn parse_list<T: std::str::FromStr>(s: &str) -> Vec<T> where T::Err: std::fmt::Debug {
  if s == "-" || s.is_empty() { return vec![]; }
  s.split(',').map(|x| x.trim().parse::<T>().unwrap()).collect()
}

fn eval(a: &[String]) -> String {
  use tyme4rs::tyme::Tyme;
  use tyme4rs::tyme::solar::*;
  use tyme4rs::tyme::jd::JulianDay;
  let v: Vec<i64> = a[1..].iter().map(|x| x.parse::<i64>().unwrap()).collect();
  let day_of = |o: i64| JulianDay::from_julian_day(o as f64 - 0.5).get_solar_day();
  match a[0].as_str() {
    "st_next" => {
      let t = SolarTime::from_ymd_hms(v[0] as isize, v[1] as usize, v[2] as usize, v[3] as usize, v[4] as usize, v[5] as usize);
      let u = t.next(v[6] as isize);
      format!("{} {} {} {}", u.get_solar_day().subtract(t.get_solar_day()), u.get_hour(), u.get_minute(), u.get_second())
    }
    "st_subtract" => {
      let x = SolarTime::from_ymd_hms(v[0] as isize, v[1] as usize, v[2] as usize, v[3] as usize, v[4] as usize, v[5] as usize);
      let y = SolarTime::from_ymd_hms(v[6] as isize, v[7] as usize, v[8] as usize, v[9] as usize, v[10] as usize, v[11] as usize);
      format!("{}", x.subtract(y))
    }
    "st_subtract_ord" => {
      let (d1, d2) = (day_of(v[0]), day_of(v[4]));
      let x = SolarTime::from_ymd_hms(d1.get_year(), d1.get_month(), d1.get_day(), v[1] as usize, v[2] as usize, v[3] as usize);
      let y = SolarTime::from_ymd_hms(d2.get_year(), d2.get_month(), d2.get_day(), v[5] as usize, v[6] as usize, v[7] as usize);
      format!("{}", x.subtract(y))
    }
    "index_of" => format!("{}", tyme4rs::tyme::AbstractCulture::new().index_of(v[0] as isize, v[1] as usize)),
    "month_next" => { let r = SolarMonth::from_ym(v[0] as isize, v[1] as usize).next(v[2] as isize); format!("{} {}", r.get_year(), r.get_month()) }
    "season_next" => { let r = SolarSeason::from_index(v[0] as isize, v[1] as usize).next(v[2] as isize); format!("{} {}", r.get_year(), r.get_index()) }
    "half_next" => { let r = SolarHalfYear::from_index(v[0] as isize, v[1] as usize).next(v[2] as isize); format!("{} {}", r.get_year(), r.get_index()) }
    _ => "UNKNOWN".to_string(),
  }
}

fn main() {
  let a: Vec<String> = std::env::args().collect();
  if a.len() > 2 && a[1] == "--eval" {
    let args: Vec<String> = a[2..].to_vec();
    let prev = panic::take_hook();
    panic::set_hook(Box::new(|_| {}));
    let r = panic::catch_unwind(move || eval(&args));
    panic::set_hook(prev);
    match r { Ok(s) => println!("{}", s), Err(_) => println!("PANIC") }
    return;
  }
  if a.len() < 4 { eprintln!("usage: replay <body> <params> <values>"); std::process::exit(2); }
  let body = tyme_verif_harness::registry().into_iter().find(|(n, _)| *n == a[1]);
  let body = match body { Some((_, b)) => b, None => { eprintln!("unknown body {}", a[1]); std::process::exit(2); } };
  let params: Vec<i64> = parse_list(&a[2]);
  let vals: Vec<u64> = parse_list(&a[3]);
  panic::set_hook(Box::new(|_| {}));
  let r = panic::catch_unwind(move || {
    let mut i = In::from_vals(vals);
    body(&mut i, &params);
    i.out_of_range
  });
  match r {
    Ok(false) => { println!("REPLAY holds"); std::process::exit(0); }
    Ok(true) => { println!("REPLAY inadmissible (value out of declared range)"); std::process::exit(3); }
    Err(e) => {
      if e.is::<AssumeFailed>() { println!("REPLAY inadmissible (assumption not met)"); std::process::exit(3); }
      if e.is::<Unrealised>() { println!("REPLAY unrealised (the symbolic environment of this counterexample does not occur in the real data)"); std::process::exit(4); }
      let msg = if let Some(s) = e.downcast_ref::<String>() { s.clone() } else if let Some(s) = e.downcast_ref::<&str>() { s.to_string() } else { "panic".to_string() };
      println!("REPLAY fails: {}", msg);
      std::process::exit(1);
    }
  }
}
