//! Native replayer: runs a harness body against the real code (no stubs) on concrete inputs.
//! usage: replay <body> <p0,p1,..|-> <v0,v1,..|->     (values: u64 bit patterns, decimal)
//! exit 0 = property holds on this input, 1 = assertion failed / panic (reproduced), 3 = input not admissible,
//! 4 = the counterexample's symbolic environment is not realised by the real data
use std::panic;
use tyme_verif_harness::nd::{AssumeFailed, In, Unrealised};

fn parse_list<T: std::str::FromStr>(s: &str) -> Vec<T> where T::Err: std::fmt::Debug {
  if s == "-" || s.is_empty() { return vec![]; }
  s.split(',').map(|x| x.trim().parse::<T>().unwrap()).collect()
}

fn eval(a: &[String]) -> String {
  use tyme4rs::tyme::Tyme;
  use tyme4rs::tyme::solar::*;
  use tyme4rs::tyme::jd::JulianDay;
  let v: Vec<i64> = a[1..].iter().map(|x| x.parse::<i64>().unwrap()).collect();
  let day_of = |o: i64| JulianDay::from_julian_day(o as f64 - 0.5).get_solar_day();
  match a[0].as_str() {
    "st_next" => {
      let t = SolarTime::from_ymd_hms(v[0] as isize, v[1] as usize, v[2] as usize, v[3] as usize, v[4] as usize, v[5] as usize);
      let u = t.next(v[6] as isize);
      format!("{} {} {} {}", u.get_solar_day().subtract(t.get_solar_day()), u.get_hour(), u.get_minute(), u.get_second())
    }
    "st_subtract" => {
      let x = SolarTime::from_ymd_hms(v[0] as isize, v[1] as usize, v[2] as usize, v[3] as usize, v[4] as usize, v[5] as usize);
      let y = SolarTime::from_ymd_hms(v[6] as isize, v[7] as usize, v[8] as usize, v[9] as usize, v[10] as usize, v[11] as usize);
      format!("{}", x.subtract(y))
    }
    "st_subtract_ord" => {
      let (d1, d2) = (day_of(v[0]), day_of(v[4]));
      let x = SolarTime::from_ymd_hms(d1.get_year(), d1.get_month(), d1.get_day(), v[1] as usize, v[2] as usize, v[3] as usize);
      let y = SolarTime::from_ymd_hms(d2.get_year(), d2.get_month(), d2.get_day(), v[5] as usize, v[6] as usize, v[7] as usize);
      format!("{}", x.subtract(y))
    }
    "index_of" => format!("{}", tyme4rs::tyme::AbstractCulture::new().index_of(v[0] as isize, v[1] as usize)),
    "month_next" => { let r = SolarMonth::from_ym(v[0] as isize, v[1] as usize).next(v[2] as isize); format!("{} {}", r.get_year(), r.get_month()) }
    "season_next" => { let r = SolarSeason::from_index(v[0] as isize, v[1] as usize).next(v[2] as isize); format!("{} {}", r.get_year(), r.get_index()) }
    "half_next" => { let r = SolarHalfYear::from_index(v[0] as isize, v[1] as usize).next(v[2] as isize); format!("{} {}", r.get_year(), r.get_index()) }
    "eight_char_sign" => {
      // which(0 origin,1 breath,2 own,3 body) y m d h (pillar indices) -> pillar index of the sign
      use tyme4rs::tyme::eightchar::EightChar;
      use tyme4rs::tyme::sixtycycle::SixtyCycle;
      let ec = EightChar::from_sixty_cycle(SixtyCycle::from_index(v[1] as isize), SixtyCycle::from_index(v[2] as isize), SixtyCycle::from_index(v[3] as isize), SixtyCycle::from_index(v[4] as isize));
      let r = match v[0] { 0 => ec.get_fetal_origin(), 1 => ec.get_fetal_breath(), 2 => ec.get_own_sign(), _ => ec.get_body_sign() };
      format!("{}", r.get_index())
    }
    "lunar_day_pillar" => {
      // residue of the month's first day number mod 60, day -> "daynumber pillarindex" of a real lunar day with that residue
      use tyme4rs::tyme::lunar::{LunarDay, LunarMonth};
      let mut m = LunarMonth::from_ym(2000, 1);
      let mut out = "NONE".to_string();
      for _ in 0..400 {
        let x = m.get_first_julian_day().get_day() as i64;
        if x.rem_euclid(60) == v[0] && (m.get_day_count() as i64) >= v[1] {
          let d = LunarDay::from_ymd(m.get_year(), m.get_month_with_leap(), v[1] as usize);
          out = format!("{} {}", x + v[1] - 1, d.get_sixty_cycle().get_index());
          break;
        }
        m = m.next(1);
      }
      out
    }
    "lunar_month_pillar" => {
      // year stem, index in year -> pillar index of a real lunar month with these
      use tyme4rs::tyme::lunar::LunarYear;
      let mut out = "NONE".to_string();
      for y in 1990..2100 {
        if ((y - 4) as i64).rem_euclid(10) != v[0] { continue; }
        let ms = LunarYear::from_year(y).get_months();
        if (v[1] as usize) < ms.len() { out = format!("{}", ms[v[1] as usize].get_sixty_cycle().get_index()); break; }
      }
      out
    }
    "lunar_hour_pillar" => {
      // day pillar index, hour -> hour pillar index on a real day with that pillar
      use tyme4rs::tyme::lunar::LunarHour;
      let mut d = SolarDay::from_ymd(2000, 1, 1);
      let mut out = "NONE".to_string();
      for _ in 0..70 {
        let l = d.get_lunar_day();
        if l.get_sixty_cycle().get_index() as i64 == v[0] {
          out = format!("{}", LunarHour::from_ymd_hms(l.get_year(), l.get_month(), l.get_day(), v[1] as usize, 0, 0).get_sixty_cycle().get_index());
          break;
        }
        d = d.next(1);
      }
      out
    }
    "first_month" => {
      use tyme4rs::tyme::sixtycycle::SixtyCycleYear;
      format!("{}", SixtyCycleYear::from_year(v[0] as isize).get_first_month().get_sixty_cycle().get_index())
    }
    "year_pillar" => {
      use tyme4rs::tyme::sixtycycle::SixtyCycleYear;
      use tyme4rs::tyme::lunar::LunarYear;
      format!("{} {}", SixtyCycleYear::from_year(v[0] as isize).get_sixty_cycle().get_index(), LunarYear::from_year(v[0] as isize).get_sixty_cycle().get_index())
    }
    "sixty_month_next" => {
      use tyme4rs::tyme::sixtycycle::SixtyCycleMonth;
      // year, month pillar index, n: build the month by stepping from the year's first month to that pillar
      let first = SixtyCycleMonth::from_index(v[0] as isize, 0);
      let fk = first.get_sixty_cycle().get_index() as i64;
      let steps = (v[1] - fk).rem_euclid(60);
      if steps >= 12 { return "NOT-A-MONTH-OF-THAT-YEAR".to_string(); }
      let m = SixtyCycleMonth::from_index(v[0] as isize, steps as isize);
      let r = m.next(v[2] as isize);
      format!("{} {}", r.get_sixty_cycle_year().get_year(), r.get_sixty_cycle().get_index())
    }
    "lunar_order" => {
      // which(0 before,1 after) L  am aleap ad  bm bleap bd : both days in one real year whose leap month is L
      use tyme4rs::tyme::lunar::{LunarDay, LunarYear};
      let mut out = "NONE".to_string();
      for y in (1900..2200).chain(1..1900).chain(2200..9999) {
        if LunarYear::from_year(y).get_leap_month() as i64 != v[1] { continue; }
        // v[8] (optional): year of the second day minus year of the first
        let dy = if v.len() > 8 { v[8] as isize } else { 0 };
        if y + dy < 1 || y + dy > 9998 { continue; }
        let a = std::panic::catch_unwind(|| LunarDay::new(y, (if v[3] == 1 { -v[2] } else { v[2] }) as isize, v[4] as usize));
        let b = std::panic::catch_unwind(|| LunarDay::new(y + dy, (if v[6] == 1 { -v[5] } else { v[5] }) as isize, v[7] as usize));
        if let (Ok(Ok(a)), Ok(Ok(b))) = (a, b) {
          let r = if v[0] == 0 { a.is_before(b.clone()) } else { a.is_after(b.clone()) };
          out = format!("{} {} {}", r, a.get_lunar_month().get_index_in_year(), b.get_lunar_month().get_index_in_year());
          break;
        }
      }
      out
    }
    "lunar_month_new" => {
      // L0 month : LunarMonth::new in a real year whose leap month is L0 -> "ok index month leap" | "err"
      use tyme4rs::tyme::lunar::{LunarMonth, LunarYear};
      let mut out = "NONE".to_string();
      for y in (1900..2200).chain(1..1900).chain(2200..9999) {
        if LunarYear::from_year(y).get_leap_month() as i64 != v[0] { continue; }
        out = match LunarMonth::new(y, v[1] as isize) { Ok(m) => format!("ok {} {} {}", m.get_index_in_year(), m.get_month(), m.is_leap()), Err(_) => "err".to_string() };
        break;
      }
      out
    }
    "lunar_day_new" => {
      // day count, day : LunarDay::new on a real month with that many days
      use tyme4rs::tyme::lunar::{LunarDay, LunarMonth};
      let mut m = LunarMonth::from_ym(2000, 1);
      let mut out = "NONE".to_string();
      for _ in 0..40 {
        if m.get_day_count() as i64 == v[0] { out = format!("{}", LunarDay::new(m.get_year(), m.get_month_with_leap(), v[1] as usize).is_ok()); break; }
        m = m.next(1);
      }
      out
    }
    "child_ratio" => {
      // provider(0 default,1 china95,2 lunar sect2) signed seconds S from birth to the Jie
      use tyme4rs::tyme::eightchar::provider::{ChildLimitProvider, DefaultChildLimitProvider, China95ChildLimitProvider, LunarSect2ChildLimitProvider};
      let term = SolarTerm::from_index(2000, 3);
      let t = term.get_julian_day().get_solar_time();
      let birth = t.next(-(v[1] as isize));
      let info = match v[0] { 0 => DefaultChildLimitProvider::new().get_info(birth, term), 1 => China95ChildLimitProvider::new().get_info(birth, term), _ => LunarSect2ChildLimitProvider::new().get_info(birth, term) };
      format!("{} {} {} {} {}", info.get_year_count(), info.get_month_count(), info.get_day_count(), info.get_hour_count(), info.get_minute_count())
    }
    "child_add_scan" => {
      // scan real births (both genders) for an end instant that is not birth + (years, months, days, hours, minutes) carried
      // through the real month lengths; prints the first offender or NONE.  v = [first year, number of years]
      use tyme4rs::tyme::eightchar::ChildLimit;
      use tyme4rs::tyme::enums::Gender;
      let mut out = "NONE".to_string();
      let mut day = SolarDay::from_ymd(v[0] as isize, 1, 1);
      'scan: for _ in 0..(v[1] * 366) {
        for (h, mi, s) in [(0usize, 0usize, 0usize), (11, 13, 21), (23, 59, 59)] {
          for g in [Gender::MAN, Gender::WOMAN] {
            let b = SolarTime::from_ymd_hms(day.get_year(), day.get_month(), day.get_day(), h, mi, s);
            let c = ChildLimit::from_solar_time(b, g);
            let e = c.get_end_time();
            // independent addition
            let mut secs = s as i64;
            let mut mins = mi as i64 + c.get_minute_count() as i64 + secs / 60; secs %= 60;
            let mut hours = h as i64 + c.get_hour_count() as i64 + mins / 60; mins %= 60;
            let mut d = day.get_day() as i64 + c.get_day_count() as i64 + hours / 24; hours %= 24;
            let mut ord = (day.get_year() as i64 + c.get_year_count() as i64) * 12 + (day.get_month() as i64 - 1) + c.get_month_count() as i64;
            loop {
              let dc = SolarMonth::from_ym((ord / 12) as isize, (ord % 12 + 1) as usize).get_day_count() as i64;
              if d > dc { d -= dc; ord += 1; } else { break; }
            }
            let exp = (ord / 12, ord % 12 + 1, d, hours, mins, secs);
            let got = (e.get_year() as i64, e.get_month() as i64, e.get_day() as i64, e.get_hour() as i64, e.get_minute() as i64, e.get_second() as i64);
            if exp != got || e.is_before(b) {
              out = format!("birth {}-{}-{} {}:{}:{} end {:?} expected {:?}", day.get_year(), day.get_month(), day.get_day(), h, mi, s, got, exp);
              break 'scan;
            }
          }
        }
        day = day.next(1);
      }
      out
    }
    "almanac_scan" => {
      // native confirmation of an engine-B counterexample: scan real days (and hours) for a violation of the rule of the
      // given kind; prints the first offender or NONE.  kinds: 0 duty, 1 day spirit, 2 lunar-hour spirit, 3 instant-level hour
      // spirit, 4 mansion (lunar route), 5 mansion (sexagenary-day route), 6 moon phase, 7 minor Ren month, 8 minor Ren day,
      // 9 month nine star
      use tyme4rs::tyme::lunar::LunarHour;
      let md = |a: i64, n: i64| a.rem_euclid(n);
      let qinglong = |b: i64| -> i64 { [8, 10, 0, 2, 4, 6][(b % 6) as usize] };
      let mut day = SolarDay::from_ymd(2000, 1, 1);
      let mut out = "NONE".to_string();
      'scan: for _ in 0..900 {
        let n = (day.get_julian_day().get_day() + 0.5) as i64;  // day number of the civil day: floor(JD + 0.5)
        let l = day.get_lunar_day();
        let sc = day.get_sixty_cycle_day();
        let dp = (n + 49).rem_euclid(60);
        let db = dp % 12;
        let mb = sc.get_month().get_earth_branch().get_index() as i64;
        let bad = match v[0] {
          0 => sc.get_duty().get_index() as i64 != md(db - mb, 12),
          1 => sc.get_twelve_star().get_index() as i64 != md(db - qinglong(mb), 12),
          4 => l.get_twenty_eight_star().get_index() as i64 != md(n + 11, 28) || (l.get_twenty_eight_star().get_seven_star().get_index() as i64) != md(n + 1, 7),
          5 => sc.get_twenty_eight_star().get_index() as i64 != md(n + 11, 28),
          6 => l.get_phase().get_index() as i64 != l.get_day() as i64 - 1,
          7 => l.get_lunar_month().get_minor_ren().get_index() as i64 != md(l.get_lunar_month().get_month() as i64 - 1, 6),
          8 => l.get_minor_ren().get_index() as i64 != md(l.get_lunar_month().get_month() as i64 - 1 + l.get_day() as i64 - 1, 6),
          9 => { let m = l.get_lunar_month(); let yb = md(m.get_year() as i64 - 4, 12); let start = [8, 5, 2][(yb % 3) as usize];
                 m.get_nine_star().get_index() as i64 != md(start - 1 - (m.get_index_in_year() as i64 % 12), 9) }
          _ => false,
        };
        if bad { out = format!("{}-{}-{} (day number {})", day.get_year(), day.get_month(), day.get_day(), n); break 'scan; }
        if v[0] == 2 || v[0] == 3 {
          for h in [0usize, 1, 12, 22, 23] {
            let hb = ((h as i64 + 1) / 2) % 12;
            let rolled = if h >= 23 { (dp + 1) % 60 } else { dp };
            let exp = md(hb - qinglong(rolled % 12), 12);
            let got = if v[0] == 2 { LunarHour::from_ymd_hms(l.get_year(), l.get_month(), l.get_day(), h, 30, 0).get_twelve_star().get_index() as i64 }
                      else { SolarTime::from_ymd_hms(day.get_year(), day.get_month(), day.get_day(), h, 30, 0).get_sixty_cycle_hour().get_twelve_star().get_index() as i64 };
            if got != exp { out = format!("{}-{}-{} {}:30 spirit {} expected {}", day.get_year(), day.get_month(), day.get_day(), h, got, exp); break 'scan; }
          }
        }
        day = day.next(1);
      }
      out
    }
    "term_day_scan" => {
      // scan real dates for a day whose reported term is not the latest one begun on or before it (or whose day index is off).
      // v[0] = 1: years where the alignment contract holds (sample of 1583..7275); 0: Julian-era years around AD 1000
      let years: Vec<isize> = if v[0] == 1 { (0..59).map(|k| 1583 + k * 97).chain(5255..5300).chain(6080..6090).chain(7230..7275).collect() } else { vec![999, 1000, 1001, 1200, 1400, 1500] };
      let mut out = "NONE".to_string();
      'scan: for y in years {
        let mut day = SolarDay::from_ymd(y, 1, 1);
        for _ in 0..365 {
          let td = day.get_term_day();
          let t = td.get_solar_term();
          let tday = t.get_julian_day().get_solar_day();
          let nday = t.next(1).get_julian_day().get_solar_day();
          if day.is_before(tday) || !day.is_before(nday) || td.get_day_index() as isize != day.subtract(tday) {
            out = format!("{}-{}-{} reported as {} day {} (that term's day {}-{}-{}, next term's day {}-{}-{})", day.get_year(), day.get_month(), day.get_day(),
                          t.get_index(), td.get_day_index(), tday.get_year(), tday.get_month(), tday.get_day(), nday.get_year(), nday.get_month(), nday.get_day());
            break 'scan;
          }
          day = day.next(1);
        }
      }
      out
    }
    "season_scan" => {
      // native confirmation for the C15 kernels: re-derive each series from the term days and the (day number + 49) mod 60 pillar
      // and compare with the library on every day of a set of years.  kinds: 0 Nines, 1 pentads, 2 Dog days, 3 Plum rains
      let dn = |d: &SolarDay| (d.get_julian_day().get_day() + 0.5) as i64;
      let tday = |y: isize, i: isize| SolarTerm::from_index(y, i).get_julian_day().get_solar_day();
      let years: Vec<isize> = if v[0] == 0 { vec![1200, 1500, 1700, 1995, 2000, 2023, 2024, 3000, 9000] } else { vec![1700, 1995, 1997, 2000, 2002, 2011, 2012, 2021, 2023, 2024, 2040, 2042, 2500, 3000] };
      let mut out = "NONE".to_string();
      'scan: for y in years {
        let mut day = SolarDay::from_ymd(y, 1, 1);
        let (wn, wc) = (dn(&tday(y + 1, 0)), dn(&tday(y, 0)));
        let (s, l, g, h) = (dn(&tday(y, 12)), dn(&tday(y, 15)), dn(&tday(y, 11)), dn(&tday(y, 13)));
        for _ in 0..SolarYear::from_year(y).get_day_count() {
          let o = dn(&day);
          let bad = match v[0] {
            0 => { let gov = if o >= wn { wn } else { wc }; let k = o - gov;
                   match day.get_nine_day() { Some(n) => !(0 <= k && k < 81) || n.get_nine().get_index() as i64 != k / 9 || n.get_day_index() as i64 != k % 9, None => 0 <= k && k < 81 } }
            1 => { let td = day.get_term_day(); let di = td.get_day_index() as i64; let third = std::cmp::min(di / 5, 2);
                   let p = day.get_phenology_day();
                   p.get_phenology().get_index() as i64 != td.get_solar_term().get_index() as i64 * 3 + third || p.get_day_index() as i64 != di - 5 * third }
            2 => { let stem = (s + 49).rem_euclid(60) % 10; let first = s + (6 - stem).rem_euclid(10) + 20; let fifth = first + 20; let a = o - first; let lm = l > fifth;
                   let exp: Option<(i64, i64)> = if a < 0 { None } else if a < 10 { Some((0, a)) } else if a < 20 { Some((1, a - 10)) }
                     else if lm { if a < 30 { Some((1, a - 10)) } else if a < 40 { Some((2, a - 30)) } else { None } } else if a < 30 { Some((2, a - 20)) } else { None };
                   let got = day.get_dog_day().map(|d| (d.get_dog().get_index() as i64, d.get_day_index() as i64));
                   got != exp }
            _ => { let start = g + (2 - (g + 49).rem_euclid(60) % 10).rem_euclid(10); let end = h + (7 - (h + 49).rem_euclid(60) % 12).rem_euclid(12);
                   let exp: Option<(i64, i64)> = if o < start || o > end { None } else if o == end { Some((1, 0)) } else { Some((0, o - start)) };
                   let got = day.get_plum_rain_day().map(|d| (d.get_plum_rain().get_index() as i64, d.get_day_index() as i64));
                   got != exp }
          };
          if bad { out = format!("{}-{}-{}", day.get_year(), day.get_month(), day.get_day()); break 'scan; }
          day = day.next(1);
        }
      }
      out
    }
    "day_view_scan" => {
      // native confirmation for 08.d: on every day of some years the sexagenary-day view's year pillar is (y - 4) mod 60 counted from the
      // Lichun day, and its month pillar is the Yin month pillar advanced once per Jie day passed
      let dn = |d: &SolarDay| (d.get_julian_day().get_day() + 0.5) as i64;
      let mut out = "NONE".to_string();
      if v.len() > 0 && v[0] == 1 {
        // instant view: day pillar rolls at 23:00, hour pillar by Five Rats on the rolled day pillar
        // the Lichun instant itself and the seconds around it (the year pillar turns AT the instant), 2019..2026
        for y in 2019isize..=2026 {
          let z = SolarTerm::from_index(y, 3).get_julian_day().get_solar_time();
          for dt in [-1isize, 0, 1] {
            let st = z.next(dt);
            let py = if st.is_before(z) { y - 1 } else { y };
            let v = st.get_sixty_cycle_hour();
            let exp_m = ((((y - 4).rem_euclid(10) % 5) * 2 + 2) as i64 + if st.is_before(z) { -1 } else { 0 }).rem_euclid(10);
            if v.get_year().get_index() as isize != (py - 4).rem_euclid(60) || v.get_month().get_heaven_stem().get_index() as i64 != exp_m {
              out = format!("{}-{}-{} {}:{}:{} ({} s from the Lichun instant): year pillar {} (expected {}), month stem {} (expected {})", st.get_year(), st.get_month(), st.get_day(), st.get_hour(), st.get_minute(),
                            st.get_second(), dt, v.get_year().get_index(), (py - 4).rem_euclid(60), v.get_month().get_heaven_stem().get_index(), exp_m);
              return out;
            }
          }
        }
        let mut day = SolarDay::from_ymd(2024, 1, 1);
        'inst: for _ in 0..130 {
          let dp = (dn(&day) + 49).rem_euclid(60);
          for h in [0usize, 1, 11, 12, 22, 23] {
            let t = SolarTime::from_ymd_hms(day.get_year(), day.get_month(), day.get_day(), h, 30, 0).get_sixty_cycle_hour();
            let rolled = if h >= 23 { (dp + 1) % 60 } else { dp };
            let hb = ((h as i64 + 1) / 2) % 12;
            let exp_stem = (2 * ((rolled % 10) % 5) + hb) % 10;
            let hp = t.get_sixty_cycle();
            // year pillar: the civil year's from the Lichun INSTANT on
            let st = SolarTime::from_ymd_hms(day.get_year(), day.get_month(), day.get_day(), h, 30, 0);
            let lichun = SolarTerm::from_index(day.get_year(), 3).get_julian_day().get_solar_time();
            let py = if st.is_before(lichun) { day.get_year() - 1 } else { day.get_year() };
            if t.get_year().get_index() as isize != (py - 4).rem_euclid(60) {
              out = format!("{}-{}-{} {}:30 year pillar {} (expected {})", day.get_year(), day.get_month(), day.get_day(), h, t.get_year().get_index(), (py - 4).rem_euclid(60));
              break 'inst;
            }
            if t.get_day().get_index() as i64 != rolled || hp.get_earth_branch().get_index() as i64 != hb || hp.get_heaven_stem().get_index() as i64 != exp_stem {
              out = format!("{}-{}-{} {}:30 day pillar {} (expected {}), hour pillar {} (expected stem {} branch {})", day.get_year(), day.get_month(), day.get_day(), h,
                            t.get_day().get_index(), rolled, hp.get_index(), exp_stem, hb);
              break 'inst;
            }
          }
          day = day.next(1);
        }
        return out;
      }
      'scan: for y in [1900isize, 1990, 2000, 2015, 2021, 2023, 2024, 2026, 2100, 3000, 1928, 1610, 1625, 1650, 1700, 1807] {
        let lichun = dn(&SolarTerm::from_index(y, 3).get_julian_day().get_solar_day());
        let jie: Vec<i64> = (0..13).map(|k| dn(&SolarTerm::from_index(y, 3 + 2 * k).get_julian_day().get_solar_day())).collect();
        let prev_jie: Vec<i64> = (0..2).map(|k| dn(&SolarTerm::from_index(y, -1 + 2 * k).get_julian_day().get_solar_day())).collect(); // 大雪(y-1) = index -1, 小寒 = index 1
        let mut day = SolarDay::from_ymd(y, 1, 1);
        for _ in 0..SolarYear::from_year(y).get_day_count() {
          let o = dn(&day);
          let sc = day.get_sixty_cycle_day();
          let py = if o >= lichun { y } else { y - 1 };
          let exp_year = (py - 4).rem_euclid(60) as usize;
          // months since the Yin month of civil year y (negative before Lichun)
          let mut q: i64 = -2;
          if o >= prev_jie[1] { q = -1; }
          for (k, j) in jie.iter().enumerate() { if o >= *j { q = k as i64; } }
          let first = (((y - 4).rem_euclid(10) % 5) * 2 + 2) as i64; // stem of the Yin month
          let exp_stem = (first + q).rem_euclid(10) as usize;
          let exp_branch = (2 + q).rem_euclid(12) as usize;
          let got_m = sc.get_month();
          if sc.get_sixty_cycle().get_index() as i64 != (o + 49).rem_euclid(60) {
            out = format!("{}-{}-{}: day pillar of the view {} (expected {})", day.get_year(), day.get_month(), day.get_day(), sc.get_sixty_cycle().get_index(), (o + 49).rem_euclid(60));
            break 'scan;
          }
          if sc.get_year().get_index() != exp_year || got_m.get_heaven_stem().get_index() != exp_stem || got_m.get_earth_branch().get_index() != exp_branch {
            out = format!("{}-{}-{}: year pillar {} (expected {}), month pillar {} (expected stem {} branch {})", day.get_year(), day.get_month(), day.get_day(),
                          sc.get_year().get_index(), exp_year, got_m.get_index(), exp_stem, exp_branch);
            break 'scan;
          }
          day = day.next(1);
        }
      }
      out
    }
    "year_nine_star" => {
      use tyme4rs::tyme::lunar::LunarYear;
      use tyme4rs::tyme::sixtycycle::SixtyCycleYear;
      format!("{} {}", LunarYear::from_year(v[0] as isize).get_nine_star().get_index(), SixtyCycleYear::from_year(v[0] as isize).get_nine_star().get_index())
    }
    "roundtrip_scan" => {
      // civil -> lunar -> civil on every day of a few years (where the real month table tiles)
      let mut out = "NONE".to_string();
      'scan: for y in [1000isize, 1582, 1900, 2020, 2023, 2033, 2034, 3000] {
        let mut day = SolarDay::from_ymd(y, 1, 1);
        let mut prev: Option<(isize, isize, usize)> = None;
        for _ in 0..SolarYear::from_year(y).get_day_count() {
          let l = day.get_lunar_day();
          let back = l.get_solar_day();
          let cur = (l.get_year(), l.get_month(), l.get_day());
          let consecutive = match prev { None => true, Some(p) => (p.0 == cur.0 && p.1 == cur.1 && p.2 + 1 == cur.2) || cur.2 == 1 };
          if back != day || !consecutive { out = format!("{}-{}-{} -> lunar {:?} -> {}-{}-{}", day.get_year(), day.get_month(), day.get_day(), cur, back.get_year(), back.get_month(), back.get_day()); break 'scan; }
          prev = Some(cur);
          day = day.next(1);
        }
      }
      out
    }
    "week_scan" => {
      // stepping a week by n moves its first day by 7n: civil (v[0] = 0) or lunar (1) weeks of a few years, all starts, n in -8..8
      use tyme4rs::tyme::lunar::{LunarMonth, LunarWeek};
      let mut out = "NONE".to_string();
      if v[0] == 0 {
        'c: for y in [1582isize, 2023, 2024] { for m in 1..13usize { for start in 0..7usize {
          let cnt = SolarMonth::from_ym(y, m).get_week_count(start);
          for idx in 0..cnt { let w = SolarWeek::from_ym(y, m, idx, start); let f = w.get_first_day();
            for n in [-8isize, -5, -1, 1, 4, 8] { let g = w.next(n).get_first_day(); if g.subtract(f) != 7 * n {
              out = format!("SolarWeek({}, {}, {}, start {}).next({}) moves the first day by {} days", y, m, idx, start, n, g.subtract(f)); break 'c; } } } } } }
      } else {
        let mut mo = LunarMonth::from_ym(2019, 12);
        'l: for _ in 0..40 { for start in 0..7usize {
          let cnt = mo.get_week_count(start);
          for idx in 0..cnt { let w = LunarWeek::from_ym(mo.get_year(), mo.get_month_with_leap(), idx, start); let f = w.get_first_day().get_solar_day();
            for n in [-8isize, -5, -1, 1, 4, 8] { let g = w.next(n).get_first_day().get_solar_day(); if g.subtract(f) != 7 * n {
              out = format!("LunarWeek({}, {}, {}, start {}).next({}) moves the first day by {} days", mo.get_year(), mo.get_month_with_leap(), idx, start, n, g.subtract(f)); break 'l; } } } }
          mo = mo.next(1); }
      }
      out
    }
    "child_dir_scan" => {
      // births at several clock times on every day of 2024 (Jie days included), both genders: forward flag and the counts implied by the governing Jie
      use tyme4rs::tyme::eightchar::ChildLimit;
      use tyme4rs::tyme::enums::Gender;
      let mut out = "NONE".to_string();
      let mut day = SolarDay::from_ymd(2024, 1, 1);
      'scan: for _ in 0..366 {
        for (h, mi, s) in [(0usize, 0usize, 0usize), (12, 9, 52), (23, 59, 59)] {
          let b = SolarTime::from_ymd_hms(day.get_year(), day.get_month(), day.get_day(), h, mi, s);
          let yp = b.get_sixty_cycle_hour().get_year().get_heaven_stem().get_index();
          let mut term = b.get_term();
          if term.get_index() % 2 == 0 { term = term.next(-1); }
          for (g, man) in [(Gender::MAN, true), (Gender::WOMAN, false)] {
            let fwd = (yp % 2 == 0) == man;
            let gov = if fwd { term.next(2) } else { term.clone() };
            let secs = gov.get_julian_day().get_solar_time().subtract(b).abs() as usize;
            let exp = (secs / 259200, secs % 259200 / 21600, secs % 21600 / 720, secs % 720 / 30, secs % 30 * 2);
            let c = ChildLimit::from_solar_time(b, g);
            let got = (c.get_year_count(), c.get_month_count(), c.get_day_count(), c.get_hour_count(), c.get_minute_count());
            if c.is_forward() != fwd || got != exp {
              out = format!("{}-{}-{} {}:{}:{} man={} forward {} (expected {}) counts {:?} (expected {:?})", day.get_year(), day.get_month(), day.get_day(), h, mi, s, man, c.is_forward(), fwd, got, exp);
              break 'scan;
            }
          }
        }
        day = day.next(1);
      }
      out
    }
    "subtract_scan" => {
      // a.subtract(b) against n for a = b.next(n): pairs inside and across months, October 1582 included
      let mut out = "NONE".to_string();
      'scan: for (y, m, d) in [(1582isize, 10usize, 1usize), (1582, 10, 4), (1582, 9, 28), (2024, 2, 27), (1999, 12, 30), (1, 1, 1)] {
        for (h, mi, s) in [(0usize, 0usize, 0usize), (6, 30, 15), (23, 59, 59)] {
          let b = SolarTime::from_ymd_hms(y, m, d, h, mi, s);
          for n in [1isize, 59, 3600, 86399, 86400, 86401, 4 * 86400, 11 * 86400 + 7, 40 * 86400] {
            let a = b.next(n);
            if a.subtract(b) != n || b.subtract(a) != -n {
              out = format!("({}-{}-{} {}:{}:{}).next({}) is {} s later by subtract", y, m, d, h, mi, s, n, a.subtract(b));
              break 'scan;
            }
          }
        }
      }
      out
    }
    "lunar_next_scan" => {
      // l.next(n) against the lunar date of the civil day n days later, on every day of 2020 and 2023 (both have a leap month)
      let mut out = "NONE".to_string();
      'scan: for y in [2020isize, 2023] {
        let mut day = SolarDay::from_ymd(y, 1, 1);
        for _ in 0..366 {
          let l = day.get_lunar_day();
          for n in [-31isize, -3, -1, 1, 2, 30] {
            let got = std::panic::catch_unwind(std::panic::AssertUnwindSafe(|| { let r = l.next(n); (r.get_year(), r.get_month(), r.get_day()) }));
            let e = day.next(n).get_lunar_day();
            let exp = (e.get_year(), e.get_month(), e.get_day());
            if got.is_err() || got.unwrap() != exp { out = format!("lunar date of {}-{}-{} stepped by {}", day.get_year(), day.get_month(), day.get_day(), n); break 'scan; }
          }
          day = day.next(1);
        }
      }
      out
    }
    "hidden_stems" => {
      use tyme4rs::tyme::sixtycycle::EarthBranch;
      EarthBranch::from_index(v[0] as isize).get_hide_heaven_stems().iter().map(|h| h.get_heaven_stem().get_index().to_string()).collect::<Vec<String>>().join(" ")
    }
    "compose_scan" => {
      // eight characters of instants (every 37 h 11 min over ~3 years, incl. 23:xx) against the four pillars of the instant-level view
      let mut t = SolarTime::from_ymd_hms(2023, 1, 1, 23, 30, 0);
      let mut out = "NONE".to_string();
      // plus 00:10 and 23:50 of every Jie day of 2023..2025 (before / after the Jie instant)
      let mut ts: Vec<SolarTime> = Vec::new();
      for _ in 0..700 { ts.push(t); t = t.next(37 * 3600 + 660); }
      for y in 2023isize..=2025 { for k in 0..12isize {
        let j = SolarTerm::from_index(y, 1 + 2 * k).get_julian_day().get_solar_day();
        ts.push(SolarTime::from_ymd_hms(j.get_year(), j.get_month(), j.get_day(), 0, 10, 0));
        ts.push(SolarTime::from_ymd_hms(j.get_year(), j.get_month(), j.get_day(), 23, 50, 0));
      } }
      // 23:30 of the evening before a Jie instant that falls between 00:00 and 01:00 (2000..2040)
      for y in 2000isize..=2040 { for k in 0..12isize {
        let z = SolarTerm::from_index(y, 1 + 2 * k).get_julian_day().get_solar_time();
        if z.get_hour() == 0 { let p = z.get_solar_day().next(-1); ts.push(SolarTime::from_ymd_hms(p.get_year(), p.get_month(), p.get_day(), 23, 30, 0)); }
      } }
      for t in ts {
        let v = t.get_sixty_cycle_hour();
        let e = v.get_eight_char();
        let l = t.get_lunar_hour().get_eight_char();
        let want = [v.get_year().get_index(), v.get_month().get_index(), v.get_day().get_index(), v.get_sixty_cycle().get_index()];
        let got = [e.get_year().get_index(), e.get_month().get_index(), e.get_day().get_index(), e.get_hour().get_index()];
        let got2 = [l.get_year().get_index(), l.get_month().get_index(), l.get_day().get_index(), l.get_hour().get_index()];
        if want != got || want != got2 { out = format!("{}-{}-{} {}:{} pillars {:?}, eight characters {:?} / via the lunar hour {:?}", t.get_year(), t.get_month(), t.get_day(), t.get_hour(), t.get_minute(), want, got, got2); break; }
      }
      out
    }
    "lunar_hour_next_scan" => {
      // LunarHour::next(n) against the instant 2n hours later (C12 12.a), 300 starting instants x 9 step sizes
      let mut t = SolarTime::from_ymd_hms(2024, 1, 28, 0, 17, 43);
      let mut out = "NONE".to_string();
      'scan: for _ in 0..300 {
        let h = t.get_lunar_hour();
        for n in [-13isize, -12, -1, 0, 1, 5, 11, 12, 40] {
          let a = h.next(n).get_solar_time();
          let b = t.next(n * 7200);
          if a.get_julian_day().get_day() != b.get_julian_day().get_day() || h.next(n).get_minute() != 17 || h.next(n).get_second() != 43 {
            out = format!("{}-{}-{} {}h next({})", t.get_year(), t.get_month(), t.get_day(), t.get_hour(), n); break 'scan;
          }
        }
        t = t.next(29 * 3600);
      }
      out
    }
    "view_next_scan" => {
      // SixtyCycleDay::next / SixtyCycleHour::next against the stepped civil day / instant
      let which = v[0];
      let mut t = SolarTime::from_ymd_hms(2021, 3, 4, 22, 59, 30);
      let mut out = "NONE".to_string();
      'scan: for _ in 0..200 {
        for n in [-100000isize, -61, -1, 0, 1, 30, 366, 86400, 999999, if which == 0 { 731 } else { 31557600 }] {
          let bad = if which == 0 {
            let d = t.get_solar_day();
            let v = d.get_sixty_cycle_day().next(n);
            let w = d.next(n).get_sixty_cycle_day();
            v.get_solar_day().get_julian_day().get_day() != w.get_solar_day().get_julian_day().get_day() || v.get_year().get_index() != w.get_year().get_index()
              || v.get_month().get_index() != w.get_month().get_index() || v.get_sixty_cycle().get_index() != w.get_sixty_cycle().get_index()
          } else {
            let v = t.get_sixty_cycle_hour().next(n);
            let w = t.next(n).get_sixty_cycle_hour();
            v.get_solar_time().get_julian_day().get_day() != w.get_solar_time().get_julian_day().get_day() || v.get_year().get_index() != w.get_year().get_index()
              || v.get_month().get_index() != w.get_month().get_index() || v.get_day().get_index() != w.get_day().get_index() || v.get_sixty_cycle().get_index() != w.get_sixty_cycle().get_index()
          };
          if bad { out = format!("{}-{}-{} {}:{}:{} next({})", t.get_year(), t.get_month(), t.get_day(), t.get_hour(), t.get_minute(), t.get_second(), n); break 'scan; }
        }
        t = t.next(41 * 3600 + 7);
      }
      out
    }
    "week_index_scan" => {
      // index in year of every civil week (all months, starts, indices) of a few years vs. (first day - first day of the week holding Jan 1) / 7
      let mut out = "NONE".to_string();
      'scan: for y in [2023isize, 2024, 2000, 1582, 1583, 4, 9998] {
        for start in 0..7usize {
          let w0 = SolarWeek::from_ym(y, 1, 0, start).get_first_day();
          for m in 1..=12usize {
            let mon = SolarMonth::from_ym(y, m);
            for i in 0..mon.get_week_count(start) {
              let w = SolarWeek::from_ym(y, m, i, start);
              let want = w.get_first_day().subtract(w0) / 7;
              if w.get_index_in_year() as isize != want { out = format!("{}-{} week {} start {}: index in year {} expected {}", y, m, i, start, w.get_index_in_year(), want); break 'scan; }
            }
          }
        }
      }
      out
    }
    "lunar_lists_scan" => {
      // list accessors of lunar months / lunar days / sexagenary days / sexagenary months over 2019..2026
      use tyme4rs::tyme::lunar::{LunarYear, LunarDay};
      use tyme4rs::tyme::sixtycycle::SixtyCycleYear;
      let mut out = "NONE".to_string();
      'scan: for y in (2015isize..=2030).chain([1574, 3358, 1575].into_iter()) {
        let ly = LunarYear::from_year(y);
        let ms0 = ly.get_months();
        let sum: usize = ms0.iter().map(|m| m.get_day_count()).sum();
        let dist = LunarYear::from_year(y + 1).get_months()[0].get_first_julian_day().subtract(ms0[0].get_first_julian_day());
        if ms0.len() != ly.get_month_count() || ly.get_day_count() != sum || (dist + 0.5).floor() as usize != sum || ms0.iter().any(|m| m.get_year() != y) || ms0[0].get_month_with_leap() != 1 {
          out = format!("lunar year {}: {} months listed (count {}), day count {} vs sum {} vs distance to the next new year {}", y, ms0.len(), ly.get_month_count(), ly.get_day_count(), sum, dist); break 'scan;
        }
        for mon in LunarYear::from_year(y).get_months() {
          let days = mon.get_days();
          if days.len() != mon.get_day_count() { out = format!("lunar month {} {}: {} days listed, day count {}", y, mon.get_month_with_leap(), days.len(), mon.get_day_count()); break 'scan; }
          for (k, d) in days.iter().enumerate() {
            if d.get_day() != k + 1 || d.get_month() != mon.get_month_with_leap() || d.get_year() != y { out = format!("lunar month {} {}: element {}", y, mon.get_month_with_leap(), k); break 'scan; }
          }
          let d: &LunarDay = &days[(y as usize + 7) % days.len()];
          let hs = d.get_hours();
          let want: Vec<usize> = vec![0, 1, 3, 5, 7, 9, 11, 13, 15, 17, 19, 21, 23];
          if hs.len() != 13 || hs.iter().map(|h| h.get_hour()).collect::<Vec<usize>>() != want || hs.iter().any(|h| h.get_minute() != 0 || h.get_second() != 0 || h.get_day() != d.get_day() || h.get_month() != d.get_month()) {
            out = format!("hours of lunar day {} {} {}", y, d.get_month(), d.get_day()); break 'scan;
          }
          let sd = d.get_solar_day();
          let sh = sd.get_sixty_cycle_day().get_hours();
          let p = sd.next(-1);
          let t0 = SolarTime::from_ymd_hms(p.get_year(), p.get_month(), p.get_day(), 23, 0, 0);
          let same = |h: &tyme4rs::tyme::sixtycycle::SixtyCycleHour| { let w = h.get_solar_time().get_sixty_cycle_hour();
            w.get_year().get_index() == h.get_year().get_index() && w.get_month().get_index() == h.get_month().get_index() && w.get_day().get_index() == h.get_day().get_index() && w.get_sixty_cycle().get_index() == h.get_sixty_cycle().get_index() };
          if sh.len() != 12 || sh.iter().enumerate().any(|(k, h)| h.get_solar_time().subtract(t0) != 7200 * k as isize || !same(h)) {
            out = format!("double-hours of sexagenary day {}-{}-{}", sd.get_year(), sd.get_month(), sd.get_day()); break 'scan;
          }
        }
        if y < 1600 { continue; }      // Julian-era years: the day -> term lookup has a known defect there (C06), the lunar-year checks above still apply
        let ms = SixtyCycleYear::from_year(y).get_months();
        // the double hours of every Jie day (the month / year pillars turn inside such a day)
        for k in 0..24isize {
          // every Jie day and the day after it (a Jie late in the evening changes the pillars of the next day's first slot, 23:00 of the Jie day)
          let jd = SolarTerm::from_index(y, 1 + 2 * (k / 2)).get_julian_day().get_solar_day().next(k % 2);
          for h in jd.get_sixty_cycle_day().get_hours() {
            let w = h.get_solar_time().get_sixty_cycle_hour();
            if w.get_year().get_index() != h.get_year().get_index() || w.get_month().get_index() != h.get_month().get_index() || w.get_day().get_index() != h.get_day().get_index() || w.get_sixty_cycle().get_index() != h.get_sixty_cycle().get_index() {
              out = format!("double-hours of the Jie day {}-{}-{}: slot at {}h", jd.get_year(), jd.get_month(), jd.get_day(), h.get_solar_time().get_hour()); break 'scan;
            }
          }
        }
        for (k, m) in ms.iter().enumerate() {
          let ds = m.get_days();
          let first = m.get_first_day().get_solar_day();
          let nxt = m.next(1).get_first_day().get_solar_day();
          if ds.len() as isize != nxt.subtract(first) || ds.iter().enumerate().any(|(j, d)| d.get_solar_day().subtract(first) != j as isize) {
            out = format!("days of sexagenary month {} of {}: {} listed, {} expected", k, y, ds.len(), nxt.subtract(first)); break 'scan;
          }
        }
      }
      out
    }
    "lists2_scan" => {
      // weeks of months, days of weeks (civil and lunar), months of sexagenary years over 2022..2025
      use tyme4rs::tyme::lunar::{LunarYear, LunarWeek};
      use tyme4rs::tyme::sixtycycle::SixtyCycleYear;
      let mut out = "NONE".to_string();
      'scan: for y in 2022isize..=2025 {
        for start in 0..7usize {
          for m in 1..=12usize {
            let mon = SolarMonth::from_ym(y, m);
            let ws = mon.get_weeks(start);
            if ws.len() != mon.get_week_count(start) { out = format!("civil month {}-{} start {}: {} weeks listed", y, m, start, ws.len()); break 'scan; }
            for (k, w) in ws.iter().enumerate() {
              let f = SolarWeek::from_ym(y, m, k, start).get_first_day();
              let ds = w.get_days();
              if w.get_index() != k || ds.len() != 7 || ds.iter().enumerate().any(|(j, d)| d.subtract(f) != j as isize) { out = format!("civil month {}-{} start {} week {}", y, m, start, k); break 'scan; }
            }
          }
          for mon in LunarYear::from_year(y).get_months() {
            let ws = mon.get_weeks(start);
            if ws.len() != mon.get_week_count(start) { out = format!("lunar month {} {} start {}: {} weeks listed", y, mon.get_month_with_leap(), start, ws.len()); break 'scan; }
            for (k, w) in ws.iter().enumerate() {
              let f = LunarWeek::from_ym(y, mon.get_month_with_leap(), k, start).get_first_day().get_solar_day();
              let ds = w.get_days();
              if w.get_index() != k || ds.len() != 7 || ds.iter().enumerate().any(|(j, d)| d.get_solar_day().subtract(f) != j as isize) { out = format!("lunar month {} {} start {} week {}", y, mon.get_month_with_leap(), start, k); break 'scan; }
            }
          }
        }
        let sy = SixtyCycleYear::from_year(y);
        let ms = sy.get_months();
        let f = sy.get_first_month();
        if ms.len() != 12 || ms.iter().enumerate().any(|(k, m)| m.get_sixty_cycle().get_index() != f.next(k as isize).get_sixty_cycle().get_index() || m.get_index_in_year() != k) {
          out = format!("months of sexagenary year {}", y); break 'scan;
        }
      }
      out
    }
    "day_nine_star_breaks" => {
      // days d in [v0-01-01, v1-12-31] where star(d+1) - star(d) is neither +1 nor -1 (mod 9), or the direction changes: "y-m-d:a>b"
      let mut d = SolarDay::from_ymd(v[0] as isize, 1, 1);
      let end = SolarDay::from_ymd(v[1] as isize, 12, 31);
      let mut out = String::new();
      let mut prev = d.get_lunar_day().get_nine_star().get_index() as i64;
      let mut dir = 0i64;
      while d.is_before(end) {
        let n = d.next(1);
        let s = n.get_lunar_day().get_nine_star().get_index() as i64;
        let delta = (s - prev).rem_euclid(9);
        let nd = if delta == 1 { 1 } else if delta == 8 { -1 } else { 0 };
        if nd == 0 || (dir != 0 && nd != dir) { out += &format!("{}-{}-{}:{}>{}({}) ", n.get_year(), n.get_month(), n.get_day(), prev, s, n.get_sixty_cycle_day().get_sixty_cycle().get_index()); }
        if nd != 0 { dir = nd; }
        prev = s; d = n;
      }
      out
    }
    "day_nine_star_scan" => {
      // v[0]: 0 = dates on/after the civil year's first turning day, 1 = dates before it; v[1]: 0 LunarDay route, 1 SixtyCycleDay route.
      // turning days recomputed here from the real solstice days and the day pillar (JD+49 mod 60)
      let mut out = "NONE".to_string();
      let pillar = |d: &SolarDay| ((d.get_julian_day().get_day() + 0.5).floor() as i64 + 49).rem_euclid(60);
      let nearest = |d: SolarDay| { let p = pillar(&d); d.next(if p > 29 { 60 - p } else { -p } as isize) };
      'scan: for y in (1900isize..2101).chain(1570..1590).chain(9990..9998) {
        let w = SolarTerm::from_index(y, 0);
        let a = nearest(w.get_julian_day().get_solar_day());
        let n = nearest(w.next(12).get_julian_day().get_solar_day());
        let a2 = nearest(w.next(24).get_julian_day().get_solar_day());
        let np = nearest(w.next(-12).get_julian_day().get_solar_day());
        let mut d = SolarDay::from_ymd(y, 1, 1);
        for _ in 0..(if v[0] == 1 { 60 } else { 366 }) {
          if d.get_year() != y { break; }
          let early = d.is_before(a);
          if early == (v[0] == 1) {
            let want = if early { (8 - d.subtract(np) as i64).rem_euclid(9) } else if d.is_before(n) { (d.subtract(a) as i64).rem_euclid(9) }
              else if d.is_before(a2) { (8 - d.subtract(n) as i64).rem_euclid(9) } else { (d.subtract(a2) as i64).rem_euclid(9) };
            let got = if v[1] == 0 { d.get_lunar_day().get_nine_star().get_index() } else { d.get_sixty_cycle_day().get_nine_star().get_index() } as i64;
            if got != want { out = format!("{}-{}-{} star index {} expected {} (previous turning day {}-{}-{})", d.get_year(), d.get_month(), d.get_day(), got, want, np.get_year(), np.get_month(), np.get_day()); break 'scan; }
          }
          d = d.next(if v[0] == 1 { 1 } else { 3 });
        }
      }
      out
    }
    "hour_nine_star_at" => {
      // star index of the 12 double hours (01:00, 03:00, ..) of a date, lunar-hour route, then the day branch
      let d = SolarDay::from_ymd(v[0] as isize, v[1] as usize, v[2] as usize);
      let mut out = String::new();
      for h in [0usize, 1, 3, 5, 7, 9, 11, 13, 15, 17, 19, 21, 23] {
        let t = SolarTime::from_ymd_hms(v[0] as isize, v[1] as usize, v[2] as usize, h, 0, 0);
        out += &format!("{}/{} ", t.get_lunar_hour().get_nine_star().get_index(), t.get_sixty_cycle_hour().get_nine_star().get_index());
      }
      format!("{}branch {}", out, d.get_sixty_cycle_day().get_sixty_cycle().get_earth_branch().get_index())
    }
    "hour_nine_star_scan" => {
      // v[0]: 0 lunar-hour route, 1 instant-level route.  Every 5th day of 2019..2026 plus Dec 18..31 of each year, hours 1, 12, 23
      let mut out = "NONE".to_string();
      'scan: for y in 2019isize..=2026 {
        let w = SolarTerm::from_index(y, 0).get_julian_day().get_solar_day();
        let s = SolarTerm::from_index(y, 12).get_julian_day().get_solar_day();
        let w2 = SolarTerm::from_index(y, 24).get_julian_day().get_solar_day();
        let mut d = SolarDay::from_ymd(y, 1, 1);
        while d.get_year() == y {
          let asc = (!d.is_before(w) && d.is_before(s)) || !d.is_before(w2);
          for h in [1usize, 12, 23] {
            let t = SolarTime::from_ymd_hms(y, d.get_month(), d.get_day(), h, 0, 0);
            let (got, db) = if v[0] == 0 { (t.get_lunar_hour().get_nine_star().get_index() as i64, d.get_lunar_day().get_sixty_cycle().get_earth_branch().get_index() as i64) }
              else { let v = t.get_sixty_cycle_hour(); (v.get_nine_star().get_index() as i64, v.get_day().get_earth_branch().get_index() as i64) };
            let hi = (((h + 1) / 2) % 12) as i64;
            let first = if asc { [0, 3, 6][(db % 3) as usize] } else { [8, 5, 2][(db % 3) as usize] };
            let want = if asc { (first + hi).rem_euclid(9) } else { (first - hi).rem_euclid(9) };
            if got != want { out = format!("{}-{}-{} {}:00 star index {} expected {} ({})", y, d.get_month(), d.get_day(), h, got, want, if asc { "ascending: on or after a winter solstice" } else { "descending" }); break 'scan; }
          }
          // every 5th day, but every day from 2 days before a solstice day to 2 days after it and from Dec 17 on
          let near = |x: &SolarDay| { let k = d.subtract(*x); k >= -3 && k <= 2 };
          d = d.next(if (d.get_month() == 12 && d.get_day() >= 17) || near(&w) || near(&s) || near(&w2) { 1 } else { 5 });
        }
      }
      out
    }
    "week_new_scan" => {
      // acceptance of SolarWeek::new (v[0] = 0) / LunarWeek::new (1) and the week count against ceil((offset of the 1st + month length) / 7)
      use tyme4rs::tyme::lunar::{LunarYear, LunarWeek};
      let mut out = "NONE".to_string();
      'scan: for y in [2023isize, 2024, 2025, 1582] {
        if v[0] == 0 {
          for m in 1..=12usize {
            let mon = SolarMonth::from_ym(y, m);
            let wd = SolarDay::from_ymd(y, m, 1).get_week().get_index() as i64;
            for start in 0..9usize {
              let cnt = (((wd - start as i64).rem_euclid(7)) as usize + mon.get_day_count() + 6) / 7;
              if start < 7 && mon.get_week_count(start) != cnt { out = format!("civil {}-{} start {}: week count {} expected {}", y, m, start, mon.get_week_count(start), cnt); break 'scan; }
              for i in 0..9usize {
                if SolarWeek::new(y, m, i, start).is_ok() != (start <= 6 && i < cnt) { out = format!("civil {}-{} index {} start {}: acceptance", y, m, i, start); break 'scan; }
              }
            }
          }
        } else {
          for mon in LunarYear::from_year(y).get_months() {
            let wd = mon.get_first_julian_day().get_week().get_index() as i64;
            for start in 0..9usize {
              let cnt = (((wd - start as i64).rem_euclid(7)) as usize + mon.get_day_count() + 6) / 7;
              if start < 7 && mon.get_week_count(start) != cnt { out = format!("lunar {} {} start {}: week count {} expected {}", y, mon.get_month_with_leap(), start, mon.get_week_count(start), cnt); break 'scan; }
              for i in 0..9usize {
                if LunarWeek::new(y, mon.get_month_with_leap(), i, start).is_ok() != (start <= 6 && i < cnt) { out = format!("lunar {} {} index {} start {}: acceptance", y, mon.get_month_with_leap(), i, start); break 'scan; }
              }
            }
          }
        }
      }
      out
    }
    "festival_next_scan" => {
      // v[0]: 0 civil, 1 lunar festivals.  f(y, i).next(n) against the festival at list position y * size + i + n
      use tyme4rs::tyme::festival::{SolarFestival, LunarFestival};
      let mut out = "NONE".to_string();
      'scan: for y in [1950isize, 2000, 2023, 2024] {
        let size: isize = if v[0] == 0 { 10 } else { 13 };
        for i in 0..size {
          for n in [-27isize, -13, -10, -1, 0, 1, 9, 10, 13, 14, 40] {
            let tot = y * size + i + n;
            let (y2, i2) = (tot.div_euclid(size), tot.rem_euclid(size) as usize);
            let bad = if v[0] == 0 {
              match SolarFestival::from_index(y, i as usize) { None => false, Some(f) => {
                let a = f.next(n); let b = SolarFestival::from_index(y2, i2);
                match (a, b) { (None, None) => false, (Some(a), Some(b)) => a.get_index() != b.get_index() || a.get_day().subtract(b.get_day()) != 0, _ => true } } }
            } else {
              match LunarFestival::from_index(y, i as usize) { None => false, Some(f) => {
                let a = f.next(n); let b = LunarFestival::from_index(y2, i2);
                match (a, b) { (None, None) => false, (Some(a), Some(b)) => a.get_index() != b.get_index() || a.get_day().get_solar_day().subtract(b.get_day().get_solar_day()) != 0, _ => true } } }
            };
            if bad { out = format!("festival {} of {} stepped by {}", i, y, n); break 'scan; }
          }
        }
      }
      // the last supported year: stepping from 9998 into 9999 (targets up to the Double Ninth, which still lie in civil 9999)
      if out == "NONE" {
        let size: isize = if v[0] == 0 { 10 } else { 13 };
        'end: for i in 0..size { for n in 1..=(2 * size) {
          let tot = 9998 * size + i + n;
          let (y2, i2) = (tot.div_euclid(size), tot.rem_euclid(size) as usize);
          if y2 != 9999 || i2 > 9 { continue; }
          let bad = if v[0] == 0 {
            match SolarFestival::from_index(9998, i as usize) { None => false, Some(f) => match (f.next(n), SolarFestival::from_index(y2, i2)) { (None, None) => false, (Some(a), Some(b)) => a.get_index() != b.get_index(), _ => true } }
          } else {
            match LunarFestival::from_index(9998, i as usize) { None => false, Some(f) => match (f.next(n), LunarFestival::from_index(y2, i2)) { (None, None) => false, (Some(a), Some(b)) => a.get_index() != b.get_index() || a.get_day().get_year() != b.get_day().get_year(), _ => true } }
          };
          if bad { out = format!("festival {} of 9998 stepped by {} (into 9999)", i, n); break 'end; }
        } }
      }
      out
    }
    "term_instant_scan" => {
      // instants (every 17 h 3 min, and one second either side of every term instant) of sampled years 1583..7275: the reported term must be
      // the latest one whose instant is at or before the instant
      let mut out = "NONE".to_string();
      'scan: for y in (0..30).map(|k| 1583 + k * 191).chain(2020..2026) {
        let mut ts: Vec<SolarTime> = Vec::new();
        let mut t = SolarTime::from_ymd_hms(y, 1, 1, 0, 0, 0);
        while t.get_year() == y { ts.push(t); t = t.next(17 * 3600 + 180); }
        for k in 1..24isize { let z = SolarTerm::from_index(y, k).get_julian_day().get_solar_time(); ts.push(z.next(-1)); ts.push(z); ts.push(z.next(1)); }
        for t in ts {
          let term = t.get_term();
          let a = term.get_julian_day().get_solar_time();
          let b = term.next(1).get_julian_day().get_solar_time();
          if t.is_before(a) || !t.is_before(b) {
            out = format!("{}-{}-{} {}:{}:{} reported as term {}", t.get_year(), t.get_month(), t.get_day(), t.get_hour(), t.get_minute(), t.get_second(), term.get_index()); break 'scan;
          }
        }
      }
      out
    }
    "lunar_hour_order_scan" => {
      // pairs of lunar hours (incl. same day / same hour / same minute, and across lunar month ends) against the order of their instants
      let mut ts: Vec<SolarTime> = Vec::new();
      let mut t = SolarTime::from_ymd_hms(2023, 3, 20, 22, 59, 58);
      for k in 0..60 { ts.push(t); t = t.next(if k % 4 == 0 { 1 } else if k % 4 == 1 { 61 } else if k % 4 == 2 { 3600 } else { 86400 * 7 + 5 }); }
      // one day with instants in the same and in neighbouring double hours (odd hour h and h + 1 share a double hour)
      for (h, mi, se) in [(1usize, 50usize, 0usize), (2, 10, 0), (2, 10, 1), (2, 9, 59), (3, 5, 0), (4, 0, 59), (23, 0, 0), (0, 30, 0), (22, 59, 59)] { ts.push(SolarTime::from_ymd_hms(2024, 6, 6, h, mi, se)); }
      let mut out = "NONE".to_string();
      'scan: for a in ts.iter() { for b in ts.iter() {
        let (la, lb) = (a.get_lunar_hour(), b.get_lunar_hour());
        if la.is_before(lb.clone()) != a.is_before(*b) || la.is_after(lb) != a.is_after(*b) {
          out = format!("{}-{}-{} {}:{}:{} vs {}-{}-{} {}:{}:{}", a.get_year(), a.get_month(), a.get_day(), a.get_hour(), a.get_minute(), a.get_second(), b.get_year(), b.get_month(), b.get_day(), b.get_hour(), b.get_minute(), b.get_second());
          break 'scan;
        }
      } }
      out
    }
    "sect1_scan" => {
      // LunarSect1: counts against (whole days, double hours) between birth and a Jie instant, births every 7 h 7 min around four Jie of 2000/2001
      use tyme4rs::tyme::eightchar::provider::{ChildLimitProvider, LunarSect1ChildLimitProvider};
      let mut out = "NONE".to_string();
      'scan: for (y, k) in [(2000isize, 3isize), (2000, 11), (2000, 23), (2001, 5), (2017, 3)] {
        let term = SolarTerm::from_index(y, k);
        let t = term.get_julian_day().get_solar_time();
        let mut b = t.next(-31 * 86400);
        while b.is_before(t.next(31 * 86400)) {
          {
            let (start, end) = if b.is_after(t) { (t, b) } else { (b, t) };
            // the strategy's own convention: 23:xx counts as index 11 of the day that ends
            let z = |h: usize| if h == 23 { 11i64 } else { (h as i64 + 1) / 2 };
            let tot = 12 * end.get_solar_day().subtract(start.get_solar_day()) as i64 + (z(end.get_hour()) - z(start.get_hour()));
            let info = LunarSect1ChildLimitProvider::new().get_info(b, term.clone());
            if info.get_year_count() as i64 != tot / 36 || info.get_month_count() as i64 != (tot / 3) % 12 || info.get_day_count() as i64 != 10 * (tot % 3) || info.get_hour_count() != 0 || info.get_minute_count() != 0 {
              out = format!("birth {}-{}-{} {}:{} against the Jie of {}-{}-{} {}h: {} y {} m {} d, {} double hours apart", b.get_year(), b.get_month(), b.get_day(), b.get_hour(), b.get_minute(),
                            t.get_year(), t.get_month(), t.get_day(), t.get_hour(), info.get_year_count(), info.get_month_count(), info.get_day_count(), tot);
              break 'scan;
            }
          }
          b = b.next(7 * 3600 + 420);
        }
      }
      out
    }
    "inverse_search_scan" => {
      use tyme4rs::tyme::Culture;
      // for sampled instants (all 12 double hours; instants within 2 h of a Jie instant skipped): the search over an enclosing year range must
      // return an instant with the same eight characters within the same double hour, and nothing that has other characters
      let mut out = "NONE".to_string();
      let mut t = SolarTime::from_ymd_hms(2001, 3, 7, 0, 40, 0);
      // the instants tried: 160 spread over 23 years, plus — for every Jie of 2003..2005 that falls after 05:00 — the instant 4 h 10 min before
      // it on the same civil day (the old month's characters still hold there)
      let mut ts: Vec<SolarTime> = Vec::new();
      for _ in 0..160 { ts.push(t); t = t.next(86400 * 53 + 7200 * 5 + 1800); }
      for y in 2003isize..=2005 { for k in 0..12isize {
        let z = SolarTerm::from_index(y, 1 + 2 * k).get_julian_day().get_solar_time();
        if z.get_hour() >= 5 { ts.push(z.next(-4 * 3600 - 600)); }
        // and noon of the last day of the month this Jie opens (29..31 days after the Jie day)
        let last = SolarTerm::from_index(y, 3 + 2 * k).get_julian_day().get_solar_day().next(-1);
        ts.push(SolarTime::from_ymd_hms(last.get_year(), last.get_month(), last.get_day(), 12, 20, 0));
      } }
      'scan: for (k, t) in ts.iter().enumerate() {
        let t = *t;
        let ec = t.get_lunar_hour().get_eight_char();
        let jie_near = { let term = t.get_term(); let a = term.get_julian_day().get_solar_time(); let b = term.next(1).get_julian_day().get_solar_time();
                         t.subtract(a).abs() < 7300 || b.subtract(t).abs() < 7300 };
        if !jie_near {
          let (y0, y1) = if k % 3 == 0 { (t.get_year(), t.get_year()) } else { (t.get_year() - 7, t.get_year() + 61) };
          let rs = ec.get_solar_times(y0, y1);
          let name = ec.get_name();
          if rs.iter().any(|r| r.get_lunar_hour().get_eight_char().get_name() != name) { out = format!("{} returned for other characters ({})", name, k); break 'scan; }
          let lo = if t.get_hour() == 23 { t.get_hour() } else if t.get_hour() % 2 == 1 { t.get_hour() } else if t.get_hour() == 0 { 0 } else { t.get_hour() - 1 };
          let start = SolarTime::from_ymd_hms(t.get_year(), t.get_month(), t.get_day(), lo, 0, 0);
          let start = if t.get_hour() == 0 { start.next(-3600) } else { start };
          if !rs.iter().any(|r| { let d = r.subtract(start); d >= 0 && d < 7200 }) {
            out = format!("{}-{}-{} {}:{} ({}): no instant of its double hour among the {} returned for {}..{}", t.get_year(), t.get_month(), t.get_day(), t.get_hour(), t.get_minute(), name, rs.len(), y0, y1);
            break 'scan;
          }
        }
      }
      out
    }
    "direction_element" => {
      use tyme4rs::tyme::culture::Direction;
      format!("{}", Direction::from_index(v[0] as isize).get_element().get_index())
    }
    "name_table" => {
      // v[0]: 0 Land::get_direction, 1 Zone::get_beast, 2 Twenty::get_sixty; v[1]: index
      use tyme4rs::tyme::culture::{Land, Zone, Twenty};
      match v[0] {
        0 => format!("{}", Land::from_index(v[1] as isize).get_direction().get_index()),
        1 => format!("{}", Zone::from_index(v[1] as isize).get_beast().get_index()),
        _ => format!("{}", Twenty::from_index(v[1] as isize).get_sixty().get_index()),
      }
    }
    "fortune_scan" => {
      // decade / yearly fortunes of births on every 3rd day of 2000-2001 (both genders): ages, years and pillars against the rule
      use tyme4rs::tyme::eightchar::ChildLimit;
      use tyme4rs::tyme::enums::Gender;
      let mut out = "NONE".to_string();
      let mut day = SolarDay::from_ymd(2000, 1, 1);
      'scan: for _ in 0..240 {
        for g in [Gender::MAN, Gender::WOMAN] {
          let b = SolarTime::from_ymd_hms(day.get_year(), day.get_month(), day.get_day(), 10, 0, 0);
          let c = ChildLimit::from_solar_time(b, g);
          let ey = c.get_end_time().get_year() as i64; let sy = b.get_year() as i64;
          let virt = ey - sy + 1;
          let sgn: i64 = if c.is_forward() { 1 } else { -1 };
          let mp = c.get_eight_char().get_month().get_index() as i64; let hp = c.get_eight_char().get_hour().get_index() as i64;
          if c.get_decade_fortune().get_sixty_cycle().get_index() as i64 != mp || c.get_decade_fortune().get_start_age() as i64 != virt - 10 {
            out = format!("birth {}-{}-{} 10:00 man={}: the decade of the child limit itself", day.get_year(), day.get_month(), day.get_day(), g == Gender::MAN); break 'scan;
          }
          for idx in [0isize, 1, 7] {
            let f = c.get_start_fortune().next(idx);
            let d = c.get_start_decade_fortune().next(idx);
            let bad = f.get_age() as i64 != virt + idx as i64 || f.get_sixty_cycle().get_index() as i64 != (hp + sgn * (virt + idx as i64)).rem_euclid(60)
              || f.get_sixty_cycle_year().get_year() as i64 != ey + idx as i64
              || d.get_start_age() as i64 != virt + 10 * idx as i64 || d.get_end_age() as i64 != virt + 10 * idx as i64 + 9
              || d.get_sixty_cycle().get_index() as i64 != (mp + sgn * (idx as i64 + 1)).rem_euclid(60)
              || d.get_start_age() != d.get_start_fortune().get_age();
            if bad { out = format!("birth {}-{}-{} 10:00 man={} index {}", day.get_year(), day.get_month(), day.get_day(), g == Gender::MAN, idx); break 'scan; }
          }
        }
        day = day.next(3);
      }
      out
    }
    "six_star" => {
      // month number, leap flag, day -> six star index on a real lunar day with these
      use tyme4rs::tyme::lunar::{LunarDay, LunarYear};
      let mut out = "NONE".to_string();
      for y in 1990..2100 {
        let ly = LunarYear::from_year(y);
        if v[1] == 1 && ly.get_leap_month() as i64 != v[0] { continue; }
        let mm = if v[1] == 1 { -v[0] } else { v[0] };
        if let Ok(d) = LunarDay::new(y, mm as isize, v[2] as usize) { out = format!("{}", d.get_six_star().get_index()); break; }
      }
      out
    }
    _ => "UNKNOWN".to_string(),
  }
}

fn main() {
  let a: Vec<String> = std::env::args().collect();
  if a.len() > 2 && a[1] == "--eval" {
    let args: Vec<String> = a[2..].to_vec();
    let prev = panic::take_hook();
    panic::set_hook(Box::new(|_| {}));
    let r = panic::catch_unwind(move || eval(&args));
    panic::set_hook(prev);
    match r { Ok(s) => println!("{}", s), Err(_) => println!("PANIC") }
    return;
  }
  if a.len() < 4 { eprintln!("usage: replay <body> <params> <values>"); std::process::exit(2); }
  let body = tyme_verif_harness::registry().into_iter().find(|(n, _)| *n == a[1]);
  let body = match body { Some((_, b)) => b, None => { eprintln!("unknown body {}", a[1]); std::process::exit(2); } };
  let params: Vec<i64> = parse_list(&a[2]);
  let vals: Vec<u64> = parse_list(&a[3]);
  panic::set_hook(Box::new(|_| {}));
  let r = panic::catch_unwind(move || {
    let mut i = In::from_vals(vals);
    body(&mut i, &params);
    i.out_of_range
  });
  match r {
    Ok(false) => { println!("REPLAY holds"); std::process::exit(0); }
    Ok(true) => { println!("REPLAY inadmissible (value out of declared range)"); std::process::exit(3); }
    Err(e) => {
      if e.is::<AssumeFailed>() { println!("REPLAY inadmissible (assumption not met)"); std::process::exit(3); }
      if e.is::<Unrealised>() { println!("REPLAY unrealised (the symbolic environment of this counterexample does not occur in the real data)"); std::process::exit(4); }
      let msg = if let Some(s) = e.downcast_ref::<String>() { s.clone() } else if let Some(s) = e.downcast_ref::<&str>() { s.to_string() } else { "panic".to_string() };
      println!("REPLAY fails: {}", msg);
      std::process::exit(1);
    }
  }
}
