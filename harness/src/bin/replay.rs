//! Native replayer: runs a harness body against the real code (no stubs) on concrete inputs.
//! usage: replay <body> <p0,p1,..|-> <v0,v1,..|->     (values: u64 bit patterns, decimal)
//! exit 0 = property holds on this input, 1 = assertion failed / panic (reproduced), 3 = input not admissible
use std::panic;
use tyme_verif_harness::nd::{AssumeFailed, In};

fn parse_list<T: std::str::FromStr>(s: &str) -> Vec<T> where T::Err: std::fmt::Debug {
  if s == "-" || s.is_empty() { return vec![]; }
  s.split(',').map(|x| x.trim().parse::<T>().unwrap()).collect()
}

fn main() {
  let a: Vec<String> = std::env::args().collect();
  if a.len() < 4 { eprintln!("usage: replay <body> <params> <values>"); std::process::exit(2); }
  let body = tyme_verif_harness::registry().into_iter().find(|(n, _)| *n == a[1]);
  let body = match body { Some((_, b)) => b, None => { eprintln!("unknown body {}", a[1]); std::process::exit(2); } };
  let params: Vec<i64> = parse_list(&a[2]);
  let vals: Vec<u64> = parse_list(&a[3]);
  let r = panic::catch_unwind(move || {
    let mut i = In::from_vals(vals);
    body(&mut i, &params);
    i.out_of_range
  });
  match r {
    Ok(false) => { println!("REPLAY holds"); std::process::exit(0); }
    Ok(true) => { println!("REPLAY inadmissible (value out of declared range)"); std::process::exit(3); }
    Err(e) => {
      if e.is::<AssumeFailed>() { println!("REPLAY inadmissible (assumption not met)"); std::process::exit(3); }
      let msg = if let Some(s) = e.downcast_ref::<String>() { s.clone() } else if let Some(s) = e.downcast_ref::<&str>() { s.to_string() } else { "panic".to_string() };
      println!("REPLAY fails: {}", msg);
      std::process::exit(1);
    }
  }
}
