//! lemma T60 and pillar helpers shared by C07 / C08 / C09 / C19
use tyme4rs::tyme::sixtycycle::{EARTH_BRANCH_NAMES, HEAVEN_STEM_NAMES, SIXTY_CYCLE_NAMES};
use crate::nd::In;
use crate::{witness, Body};

/// T60  the three static name tables: every pillar name is stem[k mod 10] ++ branch[k mod 12] (3 + 3 bytes); stems
/// pairwise distinct, branches pairwise distinct; the CRT combination (6s + 55b) mod 60 recovers k.  p = []
pub fn t60_tables(i: &mut In, _p: &[i64]) {
  let k = i.int(0, 59) as usize;
  let n = SIXTY_CYCLE_NAMES[k].as_bytes();
  let s = HEAVEN_STEM_NAMES[k % 10].as_bytes();
  let b = EARTH_BRANCH_NAMES[k % 12].as_bytes();
  assert!(n.len() == 6 && s.len() == 3 && b.len() == 3);
  assert!(n[0] == s[0] && n[1] == s[1] && n[2] == s[2] && n[3] == b[0] && n[4] == b[1] && n[5] == b[2]);
  assert!((6 * (k % 10) + 55 * (k % 12)) % 60 == k);
  let a = i.int(0, 9) as usize;
  let c = i.int(0, 9) as usize;
  if a != c { let (x, y) = (HEAVEN_STEM_NAMES[a].as_bytes(), HEAVEN_STEM_NAMES[c].as_bytes()); assert!(x[0] != y[0] || x[1] != y[1] || x[2] != y[2]); }
  let a = i.int(0, 11) as usize;
  let c = i.int(0, 11) as usize;
  if a != c { let (x, y) = (EARTH_BRANCH_NAMES[a].as_bytes(), EARTH_BRANCH_NAMES[c].as_bytes()); assert!(x[0] != y[0] || x[1] != y[1] || x[2] != y[2]); }
  witness!(k == 59, "last pillar");
}

pub fn registry() -> Vec<(&'static str, Body)> { vec![("pillar::t60_tables", t60_tables as Body)] }
