//! C13 — containers list exactly their parts.  See DESIGN.md §5 C13.
use tyme4rs::tyme::Tyme;
use tyme4rs::tyme::solar::{SolarDay, SolarHalfYear, SolarMonth, SolarSeason, SolarYear};
use tyme4rs::tyme::lunar::{LunarMonth, LunarYear};
use crate::nd::In;
use crate::refcal::*;
use crate::{witness, Body};

/// 13.a  year -> 2 half-years, 4 seasons, 12 months, in order, same year; half-year -> its 6 months and 2 seasons;
/// season -> its 3 months; month.get_season() is the season that lists it.  p = []
pub fn c13a_nesting(i: &mut In, _p: &[i64]) {
  let y = i.int(1, 9999);
  let sy = SolarYear::from_year(y as isize);
  let months = sy.get_months();
  let seasons = sy.get_seasons();
  let halves = sy.get_half_years();
  assert!(months.len() == 12 && seasons.len() == 4 && halves.len() == 2);
  let mut k = 0;
  while k < 12 {
    assert!(months[k].get_year() as i64 == y && months[k].get_month() == k + 1);
    let s = months[k].get_season();
    assert!(s.get_year() as i64 == y && s.get_index() == k / 3);
    k += 1;
  }
  let mut k = 0;
  while k < 4 {
    assert!(seasons[k].get_year() as i64 == y && seasons[k].get_index() == k);
    let sm = seasons[k].get_months();
    assert!(sm.len() == 3);
    let mut j = 0;
    while j < 3 { assert!(sm[j].get_year() as i64 == y && sm[j].get_month() == k * 3 + j + 1); j += 1; }
    std::mem::forget(sm);
    k += 1;
  }
  let mut k = 0;
  while k < 2 {
    assert!(halves[k].get_year() as i64 == y && halves[k].get_index() == k);
    let hm = halves[k].get_months();
    let hs = halves[k].get_seasons();
    assert!(hm.len() == 6 && hs.len() == 2);
    let mut j = 0;
    while j < 6 { assert!(hm[j].get_year() as i64 == y && hm[j].get_month() == k * 6 + j + 1); j += 1; }
    let mut j = 0;
    while j < 2 { assert!(hs[j].get_year() as i64 == y && hs[j].get_index() == k * 2 + j); j += 1; }
    std::mem::forget(hm);
    std::mem::forget(hs);
    k += 1;
  }
  witness!(y == 9999, "last year");
  std::mem::forget(months);
  std::mem::forget(seasons);
  std::mem::forget(halves);
}

/// 13.b  a month lists exactly the dates that exist in it, in order; their number is the month's day count.
/// SolarDay::next is the reference-calendar walk (01.c/d/g).  p = [ylo, yhi]
pub fn c13b_days(i: &mut In, p: &[i64]) {
  let y = i.int(p[0], p[1]);
  let m = i.int(1, 12);
  let sm = SolarMonth::from_ym(y as isize, m as usize);
  let days = sm.get_days();
  let n = days.len() as i64;
  assert!(n == days_in_month(y, m));
  assert!(n == sm.get_day_count() as i64);
  let mut k = 0i64;
  while k < n {
    let x = days[k as usize];
    assert!(x.get_year() as i64 == y && x.get_month() as i64 == m && x.get_day() as i64 == day_at_pos(y, m, k + 1));
    k += 1;
  }
  witness!(y == 1582 && m == 10, "cut-over month");
  witness!(m == 2 && n == 29, "leap February");
  std::mem::forget(days);
}

/// 13.c  a lunar year lists exactly its 12 or 13 months, in index order, the leap month right after its twin, all in
/// that year — for ANY leap table (ENV-A, ENV-L).  p = [y0]
pub fn c13c_lunar_year(i: &mut In, p: &[i64]) {
  let (shift, leap) = crate::env::leap_window(i, p[0], 3);
  let y = p[0] + 1 + shift;
  let l = leap[1];
  let ly = LunarYear::from_year(y as isize);
  let cnt = ly.get_month_count() as i64;
  assert!(cnt == if l > 0 { 13 } else { 12 });
  let months = ly.get_months();
  assert!(months.len() as i64 == cnt);
  let mut k = 0i64;
  while k < cnt {
    let x: LunarMonth = months[k as usize];
    assert!(x.get_year() as i64 == y);
    assert!(x.get_index_in_year() as i64 == k);
    // month number and leap flag from the position
    let (em, el) = if l == 0 || k < l as i64 { (k + 1, false) } else if k == l as i64 { (l as i64, true) } else { (k, false) };
    assert!(x.get_month() as i64 == em && x.is_leap() == el);
    k += 1;
  }
  witness!(l == 12, "leap twelfth month");
  witness!(l == 1, "leap first month");
  witness!(l == 0, "no leap month");
  std::mem::forget(months);
}

/// 13.L  reference-calendar lemma behind the month-listing stand-in: inside a month one successor step moves from the
/// date at position pos to the date at position pos+1.  p = []
pub fn c13l_succ_in_month(i: &mut In, _p: &[i64]) {
  let y = i.int(1, 9999);
  let m = i.int(1, 12);
  let pos = i.int(1, 30);
  i.assume(pos < days_in_month(y, m));
  let d = day_at_pos(y, m, pos);
  assert!(valid(y, m, d));
  assert!(succ(y, m, d) == (y, m, day_at_pos(y, m, pos + 1)));
  assert!(day_at_pos(y, m, 1) == 1);
  witness!(y == 1582 && m == 10 && pos == 4, "across the gap");
}

pub fn registry() -> Vec<(&'static str, Body)> {
  vec![
    ("c13::c13a_nesting", c13a_nesting as Body),
    ("c13::c13b_days", c13b_days),
    ("c13::c13c_lunar_year", c13c_lunar_year),
    ("c13::c13l_succ_in_month", c13l_succ_in_month),
  ]
}
