//! C14 — weeks of a month.  See DESIGN.md §5 C14.
use tyme4rs::tyme::Tyme;
use tyme4rs::tyme::solar::{SolarDay, SolarMonth, SolarWeek};
use crate::nd::In;
use crate::refcal::*;
use crate::env::{rel_ord, set_base};
use crate::{witness, Body};

fn wd_of(o: i64) -> i64 { ((o + 1) as u32 % 7) as i64 }
fn off_of(wd1: i64, start: i64) -> i64 { (wd1 - start + 7) % 7 }

/// 14.L  reference-calendar lemma behind the small-step stand-in: near(x, 0) = x and one more step is one
/// successor (forward) resp. predecessor (backward) step.  p = []
pub fn c14l_near(i: &mut In, _p: &[i64]) {
  let (y, m, d) = (i.int(1, 9999), i.int(1, 12), i.int(1, 31));
  i.assume(valid(y, m, d));
  let n = i.int(-45, 45);
  assert!(near(y, m, d, 0) == Some((y, m, d)));
  if let Some(a) = near(y, m, d, n) {
    assert!(valid(a.0, a.1, a.2));
    if n >= 0 && n < 45 {
      if let Some(b) = near(y, m, d, n + 1) { assert!(b == succ(a.0, a.1, a.2)); }
      else { assert!(a == (9999, 12, 31)); }
    }
    if n <= 0 && n > -45 {
      if let Some(b) = near(y, m, d, n - 1) { assert!(b == pred(a.0, a.1, a.2)); }
      else { assert!(a == (1, 1, 1)); }
    }
  } else {
    // undefined only when the target leaves 0001..9999
    assert!((y == 9999 && n > 0) || (y == 1 && n < 0));
  }
  witness!(y == 1582 && m == 10 && d == 4 && n == 1, "across the gap");
  witness!(m == 1 && n == 45 && d == 31, "two month borders forward");
}

/// 14.a  for every month, start weekday and week index: the constructor accepts exactly the indices below the week
/// count; the count is ceil((offset of the 1st + days in month) / 7); the week's first day is the 1st minus that
/// offset plus 7*index and falls on the chosen weekday; its seven days are consecutive; week 0 contains the 1st and
/// the last week contains the month's last day.  Day counts are relative to an arbitrary day count of the 1st of the month
/// (env::set_base_wd; 01.c/01.r/13.L); one job per weekday of the 1st.  p = [ylo, yhi, weekday of the 1st]
pub fn c14a_weeks(i: &mut In, p: &[i64]) {
  let y = i.int(p[0], p[1]);
  let m = i.int(1, 12);
  let start = i.int(0, 6);
  let idx = i.int(0, 7);
  let (o1, y) = crate::env::set_base_wd(i, y, m, p[2]);
  let first = SolarDay::from_ymd(y as isize, m as usize, 1);
  let wd1 = first.get_week().get_index() as i64;
  assert!(wd1 == wd_of(o1));
  let off = off_of(wd1, start);
  let dim = days_in_month(y, m);
  let count = (off + dim + 6) / 7;
  let sm = SolarMonth::from_ym(y as isize, m as usize);
  assert!(sm.get_week_count(start as usize) as i64 == count);
  let r = SolarWeek::new(y as isize, m as usize, idx as usize, start as usize);
  assert!(r.is_ok() == (idx < count));
  if let Ok(w) = r {
    let f = w.get_first_day();
    let of = rel_ord(f.get_year() as i64, f.get_month() as i64, f.get_day() as i64);
    assert!(of == o1 - off + 7 * idx);
    assert!(f.get_week().get_index() as i64 == start);
    // coverage: week 0 reaches back to the 1st, the last week reaches the last day of the month
    if idx == 0 { assert!(of <= o1 && o1 <= of + 6); }
    if idx == count - 1 { assert!(of <= o1 + dim - 1 && o1 + dim - 1 <= of + 6); }
    witness!(idx == 5, "sixth week");
    std::mem::forget(w);
  }
  witness!(y == 1582 && m == 10, "cut-over month");
  witness!(count == 4, "a February of exactly four weeks");
  witness!(count == 6, "six weeks");
}

/// 14.a2  the seven days of a week are its first day and the six days after it, in order.  p = [ylo, yhi]
pub fn c14a_days(i: &mut In, p: &[i64]) {
  let y = i.int(p[0], p[1]);
  let m = i.int(1, 12);
  let start = i.int(0, 6);
  let idx = i.int(0, 5);
  let (_o1, y) = crate::env::set_base_wd(i, y, m, p[2]);
  let r = SolarWeek::new(y as isize, m as usize, idx as usize, start as usize);
  i.assume(r.is_ok());
  let w = r.unwrap();
  let f = w.get_first_day();
  let (fy, fm, fd) = (f.get_year() as i64, f.get_month() as i64, f.get_day() as i64);
  let days = w.get_days();
  assert!(days.len() == 7);
  let mut k = 0;
  while k < 7 {
    let x = days[k];
    assert!(Some((x.get_year() as i64, x.get_month() as i64, x.get_day() as i64)) == near(fy, fm, fd, k as i64));
    k += 1;
  }
  witness!(fm != m, "week starting in the previous month");
  std::mem::forget(days);
  std::mem::forget(w);
}

/// 14.b  the week reported for a date contains that date and starts on the chosen weekday.  p = [ylo, yhi, weekday of the 1st]
pub fn c14b_week_of_date(i: &mut In, p: &[i64]) {
  let (y, m, d) = (i.int(p[0], p[1]), i.int(1, 12), i.int(1, 31));
  i.assume(valid(y, m, d));
  let start = i.int(0, 6);
  let (o1, y) = crate::env::set_base_wd(i, y, m, p[2]);
  let x = SolarDay::from_ymd(y as isize, m as usize, d as usize);
  let ox = rel_ord(y, m, d);
  assert!(ox == o1 + pos_in_month(y, m, d) - 1);
  let w = x.get_solar_week(start as usize);
  assert!(w.get_year() as i64 == y && w.get_month() as i64 == m);
  let f = w.get_first_day();
  let of = rel_ord(f.get_year() as i64, f.get_month() as i64, f.get_day() as i64);
  assert!(of <= ox && ox <= of + 6);
  assert!(f.get_week().get_index() as i64 == start);
  witness!(y == 1582 && m == 10 && d == 20, "cut-over month, after the gap");
  witness!(d == last_day(y, m) && of == ox, "last day of a month opening a week");
  std::mem::forget(w);
}

/// 14.c  stepping a week by n moves its first day by 7n.  p = [ylo, yhi, nmax]
pub fn c14c_week_next(i: &mut In, p: &[i64]) {
  let y = i.int(p[0], p[1]);
  let m = i.int(1, 12);
  let start = i.int(0, 6);
  let idx = i.int(0, 5);
  let n = i.int(-p[2], p[2]);
  let (_o1, y) = crate::env::set_base_wd(i, y, m, p[3]);
  let r = SolarWeek::new(y as isize, m as usize, idx as usize, start as usize);
  i.assume(r.is_ok());
  let w = r.unwrap();
  let f = w.get_first_day();
  let of = rel_ord(f.get_year() as i64, f.get_month() as i64, f.get_day() as i64);
  let v = w.next(n as isize);
  let g = v.get_first_day();
  let og = rel_ord(g.get_year() as i64, g.get_month() as i64, g.get_day() as i64);
  assert!(og == of + 7 * n);
  assert!(v.get_start().get_index() as i64 == start);
  witness!(n < 0 && (v.get_month() as i64) != m, "back into another month");
  witness!(n > 0 && (v.get_year() as i64) > y, "forward across a year end");
  std::mem::forget(w);
  std::mem::forget(v);
}

pub fn registry() -> Vec<(&'static str, Body)> {
  vec![
    ("c14::c14l_near", c14l_near as Body),
    ("c14::c14a_weeks", c14a_weeks),
    ("c14::c14a_days", c14a_days),
    ("c14::c14b_week_of_date", c14b_week_of_date),
    ("c14::c14c_week_next", c14c_week_next),
  ]
}
