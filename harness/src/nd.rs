//! Input source shared by the Kani harnesses and the native replayer.
//!
//! Every harness body draws its symbolic inputs through `In`, *before* it calls any repository code, as 8-byte
//! values (i64 or f64).  Under Kani each draw is `kani::any()` plus an `assume` of the stated range; the concrete
//! playback of a counterexample therefore starts with exactly these 8-byte vectors, in draw order.  Natively the
//! same body runs against the real code (no stubs) with the values taken from that counterexample.

pub struct In {
  #[cfg(not(kani))]
  vals: Vec<u64>,
  #[cfg(not(kani))]
  pos: usize,
  #[cfg(not(kani))]
  pub out_of_range: bool,
}

#[cfg(kani)]
impl In {
  pub fn new() -> Self { In {} }
  #[inline(always)]
  pub fn int(&mut self, lo: i64, hi: i64) -> i64 {
    let v: i64 = kani::any();
    kani::assume(lo <= v && v <= hi);
    v
  }
  #[inline(always)]
  pub fn f64(&mut self) -> f64 {
    let v: f64 = kani::any();
    v
  }
  #[inline(always)]
  pub fn assume(&mut self, c: bool) { kani::assume(c); }
}

#[cfg(not(kani))]
impl In {
  pub fn from_vals(vals: Vec<u64>) -> Self { In { vals, pos: 0, out_of_range: false } }
  pub fn int(&mut self, lo: i64, hi: i64) -> i64 {
    let v = if self.pos < self.vals.len() { self.vals[self.pos] as i64 } else { self.out_of_range = true; lo };
    self.pos += 1;
    if v < lo || v > hi { self.out_of_range = true; }
    v
  }
  pub fn f64(&mut self) -> f64 {
    let v = if self.pos < self.vals.len() { f64::from_bits(self.vals[self.pos]) } else { self.out_of_range = true; 0.0 };
    self.pos += 1;
    v
  }
  /// natively an unmet assumption means the input vector is not a counterexample of this harness
  pub fn assume(&mut self, c: bool) { if !c { std::panic::panic_any(AssumeFailed); } }
  pub fn consumed(&self) -> usize { self.pos }
}

#[cfg(not(kani))]
pub struct AssumeFailed;

/// assumption inside helpers that have no `In` at hand
#[cfg(kani)]
#[inline(always)]
pub fn assume(c: bool) { kani::assume(c); }
#[cfg(not(kani))]
pub fn assume(c: bool) { if !c { std::panic::panic_any(AssumeFailed); } }

/// reachability witness: under Kani a cover property that must come back SATISFIED; natively a no-op
#[macro_export]
macro_rules! witness {
  ($c:expr, $m:expr) => {
    #[cfg(kani)]
    kani::cover!($c, $m);
  };
}

/// keep heap-backed results out of the solver's drop glue
#[inline(always)]
pub fn forget<T>(t: T) { std::mem::forget(t); }

/// "is refused": the closure returns true (an Err) or panics.  Under Kani a panic is a failed check of the
/// repository's own (the job lists which descriptions it tolerates) and ends the path.
#[cfg(kani)]
#[inline(always)]
pub fn refused<F: FnOnce() -> bool>(f: F) -> bool { f() }
#[cfg(not(kani))]
pub fn refused<F: FnOnce() -> bool + std::panic::UnwindSafe>(f: F) -> bool {
  match std::panic::catch_unwind(f) { Ok(b) => b, Err(e) => { if e.is::<AssumeFailed>() { std::panic::resume_unwind(e) } else { true } } }
}

/// natively: the symbolic environment of the counterexample (leap pattern, term spacing ...) occurs nowhere in the real data
#[cfg(not(kani))]
pub struct Unrealised;
