//! C19 — stem and branch attributes vs. a first-principles encoding.  See DESIGN.md §5 C19.
//! Oracles are written from the classical rules (which stem belongs to which element, the direction rhymes, the birth
//! branch of each stem, the six-combination pairs ...), not from the arrays in the source.
use tyme4rs::tyme::Tyme;
use tyme4rs::tyme::culture::{Element, Direction};
use tyme4rs::tyme::culture::star::nine::NineStar;
use tyme4rs::tyme::culture::star::twenty_eight::TwentyEightStar;
use tyme4rs::tyme::culture::star::twelve::TwelveStar;
use tyme4rs::tyme::enums::YinYang;
use tyme4rs::tyme::sixtycycle::{EarthBranch, HeavenStem, SixtyCycle};
use tyme4rs::tyme::solar::SolarDay;
use crate::nd::In;
use crate::{witness, Body};

// elements: 0 wood 1 fire 2 earth 3 metal 4 water.  directions: 0 N, 1 SW, 2 E, 3 SE, 4 centre, 5 NW, 6 W, 7 NE, 8 S
const STEM_ELEMENT: [i64; 10] = [0, 0, 1, 1, 2, 2, 3, 3, 4, 4];          // 甲乙木 丙丁火 戊己土 庚辛金 壬癸水
const ELEMENT_DIRECTION: [i64; 5] = [2, 8, 4, 6, 0];                        // 木东 火南 土中 金西 水北
const BRANCH_ELEMENT: [i64; 12] = [4, 2, 0, 0, 2, 1, 1, 2, 3, 3, 2, 4];     // 子水 丑土 寅卯木 辰土 巳午火 未土 申酉金 戌土 亥水
// 喜神: 甲己艮(NE) 乙庚乾(NW) 丙辛坤(SW) 丁壬离(S) 戊癸巽(SE)
fn joy(stem: i64) -> i64 { match stem % 5 { 0 => 7, 1 => 5, 2 => 1, 3 => 8, _ => 3 } }
// 阳贵: 甲戊坤艮位 乙己是坤坎 庚辛居离艮 丙丁兑与乾 震巽属何日 壬癸贵神安
const YANG_NOBLE: [i64; 10] = [1, 1, 6, 5, 7, 0, 8, 7, 2, 3];
// 阴贵: 甲艮乙坎丙乾丁兑戊坤己坤庚艮辛离壬巽癸震
const YIN_NOBLE: [i64; 10] = [7, 0, 5, 6, 1, 1, 7, 8, 3, 2];
// 财神: 甲乙东北 丙丁西南 戊己正北 庚辛正东 壬癸正南
fn wealth(stem: i64) -> i64 { [7, 1, 0, 2, 8][(stem / 2) as usize] }
// 福神: 甲乙东南 丙丁正东 戊北 己南 庚辛坤 壬乾 癸西
const MASCOT: [i64; 10] = [3, 3, 2, 2, 0, 8, 1, 1, 5, 6];
// 长生 (birth) branch of each stem: 甲亥 丙戊寅 庚巳 壬申 (yang, forward); 乙午 丁己酉 辛子 癸卯 (yin, backward)
const BIRTH_BRANCH: [i64; 10] = [11, 6, 2, 9, 2, 9, 5, 0, 8, 3];
// hidden stems 本气 / 中气 / 余气
const HIDE_MAIN: [i64; 12] = [9, 5, 0, 1, 4, 2, 3, 5, 6, 7, 4, 8];
const HIDE_MIDDLE: [i64; 12] = [-1, 9, 2, -1, 1, 6, 5, 3, 8, -1, 7, 0];
const HIDE_RESIDUAL: [i64; 12] = [-1, 7, 4, -1, 9, 4, -1, 1, 4, -1, 3, -1];
// 六合 pairs with the transformed element: 子丑土 寅亥木 卯戌火 辰酉金 巳申水 午未土
const SIX_COMBINE: [(i64, i64, i64); 6] = [(0, 1, 2), (2, 11, 0), (3, 10, 1), (4, 9, 3), (5, 8, 4), (6, 7, 2)];
// 六害 pairs: 子未 丑午 寅巳 卯辰 申亥 酉戌
const SIX_HARM: [(i64, i64); 6] = [(0, 7), (1, 6), (2, 5), (3, 4), (8, 11), (9, 10)];
// 五合 with the transformed element: 甲己土 乙庚金 丙辛水 丁壬木 戊癸火
const FIVE_COMBINE: [(i64, i64, i64); 5] = [(0, 5, 2), (1, 6, 3), (2, 7, 4), (3, 8, 0), (4, 9, 1)];
// 三煞 direction: 申子辰煞南 寅午戌煞北 巳酉丑煞东 亥卯未煞西
fn ominous(branch: i64) -> i64 { match branch % 4 { 0 => 8, 1 => 2, 2 => 0, _ => 6 } }

fn md(a: i64, n: i64) -> i64 { ((a % n) + n) % n }
fn yang(y: YinYang) -> bool { y == YinYang::YANG }

/// 19.a  stem: element, polarity, direction, the five direction rhymes.  p = []
pub fn c19a_stem_basic(i: &mut In, _p: &[i64]) {
  let s = i.int(0, 9);
  let h = HeavenStem::from_index(s as isize);
  assert!(h.get_index() as i64 == s);
  let e = STEM_ELEMENT[s as usize];
  assert!(h.get_element().get_index() as i64 == e);
  assert!(yang(h.get_yin_yang()) == (s % 2 == 0));
  assert!(h.get_direction().get_index() as i64 == ELEMENT_DIRECTION[e as usize]);
  assert!(h.get_joy_direction().get_index() as i64 == joy(s));
  assert!(h.get_yang_direction().get_index() as i64 == YANG_NOBLE[s as usize]);
  assert!(h.get_yin_direction().get_index() as i64 == YIN_NOBLE[s as usize]);
  assert!(h.get_wealth_direction().get_index() as i64 == wealth(s));
  assert!(h.get_mascot_direction().get_index() as i64 == MASCOT[s as usize]);
  witness!(s == 9, "last stem");
  std::mem::forget(h);
}

/// 19.b  twelve growth stages: forward from the birth branch for Yang stems, backward for Yin stems.  p = []
pub fn c19b_terrain(i: &mut In, _p: &[i64]) {
  let s = i.int(0, 9);
  let b = i.int(0, 11);
  let h = HeavenStem::from_index(s as isize);
  let t = h.get_terrain(EarthBranch::from_index(b as isize)).get_index() as i64;
  let birth = BIRTH_BRANCH[s as usize];
  let exp = if s % 2 == 0 { md(b - birth, 12) } else { md(birth - b, 12) };
  assert!(t == exp);
  witness!(s % 2 == 1 && b > birth, "yin stem, branch after the birth branch");
  std::mem::forget(h);
}

/// 19.c  ten-star relation from the generating / overcoming relation of the two elements and same / opposite
/// polarity.  p = []
pub fn c19c_ten_star(i: &mut In, _p: &[i64]) {
  let a = i.int(0, 9);
  let b = i.int(0, 9);
  let me = HeavenStem::from_index(a as isize);
  let r = me.get_ten_star(HeavenStem::from_index(b as isize)).get_index() as i64;
  let (ea, eb) = (STEM_ELEMENT[a as usize], STEM_ELEMENT[b as usize]);
  let same = a % 2 == b % 2;
  // relation of b's element to mine: 0 same, 1 I generate it, 2 I overcome it, 3 it overcomes me, 4 it generates me
  let rel = md(eb - ea, 5);
  let exp = rel * 2 + if same { 0 } else { 1 };
  assert!(r == exp);
  witness!(a % 2 == 1 && b % 2 == 0 && b < a, "yin stem looking at an earlier yang stem");
  std::mem::forget(me);
}

/// 19.d  five combinations: partner is an involution, pairs and transformed element as in 甲己土 乙庚金 丙辛水 丁壬木 戊癸火.  p = []
pub fn c19d_stem_combine(i: &mut In, _p: &[i64]) {
  let a = i.int(0, 9);
  let b = i.int(0, 9);
  let x = HeavenStem::from_index(a as isize);
  let partner = x.get_combine().get_index() as i64;
  assert!(HeavenStem::from_index(partner as isize).get_combine().get_index() as i64 == a);
  let mut exp_partner = -1;
  let mut exp_el = -1;
  let mut k = 0;
  while k < 5 {
    let (p, q, e) = FIVE_COMBINE[k];
    if a == p { exp_partner = q; exp_el = e; }
    if a == q { exp_partner = p; exp_el = e; }
    k += 1;
  }
  assert!(partner == exp_partner);
  match x.combine(HeavenStem::from_index(b as isize)) {
    Some(e) => { assert!(b == exp_partner && e.get_index() as i64 == exp_el); std::mem::forget(e); }
    None => { assert!(b != exp_partner); }
  }
  witness!(b == exp_partner, "a combining pair");
  std::mem::forget(x);
}

/// 19.e  branch: element, polarity, direction (= direction of its element), zodiac animal, ominous direction.  p = []
pub fn c19e_branch_basic(i: &mut In, _p: &[i64]) {
  let b = i.int(0, 11);
  let x = EarthBranch::from_index(b as isize);
  let e = BRANCH_ELEMENT[b as usize];
  assert!(x.get_element().get_index() as i64 == e);
  assert!(yang(x.get_yin_yang()) == (b % 2 == 0));
  assert!(x.get_direction().get_index() as i64 == ELEMENT_DIRECTION[e as usize]);
  assert!(x.get_zodiac().get_index() as i64 == b);
  assert!(x.get_ominous().get_index() as i64 == ominous(b));
  witness!(b == 11, "last branch");
  std::mem::forget(x);
}

/// 19.f  hidden stems (main / middle / residual).  p = []
pub fn c19f_hidden(i: &mut In, _p: &[i64]) {
  let b = i.int(0, 11);
  let x = EarthBranch::from_index(b as isize);
  assert!(x.get_hide_heaven_stem_main().get_index() as i64 == HIDE_MAIN[b as usize]);
  let m = match x.get_hide_heaven_stem_middle() { Some(s) => { let k = s.get_index() as i64; std::mem::forget(s); k } None => -1 };
  let r = match x.get_hide_heaven_stem_residual() { Some(s) => { let k = s.get_index() as i64; std::mem::forget(s); k } None => -1 };
  assert!(m == HIDE_MIDDLE[b as usize]);
  assert!(r == HIDE_RESIDUAL[b as usize]);
  witness!(m == -1 && r == -1, "a branch with one hidden stem");
  witness!(m >= 0 && r == -1, "a branch with a middle but no residual stem");
  std::mem::forget(x);
}

/// 19.g  branch relations: clash (+6), six combinations and harms as involutions on the classical pair sets, with
/// the transformed element.  p = []
pub fn c19g_branch_relations(i: &mut In, p: &[i64]) {
  let a = i.int(0, 11);
  let b = i.int(0, 11);
  let x = EarthBranch::from_index(a as isize);
  if p[0] == 0 {
    // part 0: clash and harm
    let opp = x.get_opposite().get_index() as i64;
    assert!(opp == md(a + 6, 12));
    let harm = x.get_harm().get_index() as i64;
    assert!(EarthBranch::from_index(harm as isize).get_harm().get_index() as i64 == a);
    let mut eh = -1;
    let mut k = 0;
    while k < 6 {
      let (p, q) = SIX_HARM[k];
      if a == p { eh = q; }
      if a == q { eh = p; }
      k += 1;
    }
    assert!(harm == eh);
    witness!(a == 11, "last branch");
    std::mem::forget(x);
    return;
  }
  let comb = x.get_combine().get_index() as i64;
  let harm = -2;
  assert!(EarthBranch::from_index(comb as isize).get_combine().get_index() as i64 == a);
  let (mut ec, mut ee, mut eh) = (-1, -1, -1);
  let mut k = 0;
  while k < 6 {
    let (p, q, e) = SIX_COMBINE[k];
    if a == p { ec = q; ee = e; }
    if a == q { ec = p; ee = e; }
    let (p, q) = SIX_HARM[k];
    if a == p { eh = q; }
    if a == q { eh = p; }
    k += 1;
  }
  let _ = (harm, eh);
  assert!(comb == ec);
  match x.combine(EarthBranch::from_index(b as isize)) {
    Some(e) => { assert!(b == ec && e.get_index() as i64 == ee); std::mem::forget(e); }
    None => { assert!(b != ec); }
  }
  witness!(b == ec, "a combining pair");
  std::mem::forget(x);
}

/// 19.h  the sixty pillars: stem / branch decomposition, Nayin = pairs of pillars, decade (Xun) = tens, the two void
/// branches = the two branches the decade does not use.  p = []
pub fn c19h_pillar(i: &mut In, p: &[i64]) {
  let k = i.int(0, 59);
  let c = SixtyCycle::from_index(k as isize);
  assert!(c.get_index() as i64 == k);
  if p[0] == 0 {
    assert!(c.get_heaven_stem().get_index() as i64 == k % 10);
    assert!(c.get_earth_branch().get_index() as i64 == k % 12);
  } else if p[0] == 1 {
    assert!(c.get_sound().get_index() as i64 == k / 2);
  } else if p[0] == 2 {
    assert!(c.get_ten().get_index() as i64 == k / 10);
  } else {
    let v = c.get_extra_earth_branches();
    assert!(v.len() == 2);
    let first_unused = md((k / 10) * 10 + 10, 12);
    assert!(v[0].get_index() as i64 == first_unused && v[1].get_index() as i64 == md(first_unused + 1, 12));
    std::mem::forget(v);
  }
  witness!(k == 59, "last pillar");
  std::mem::forget(c);
}

/// 19.i  element cycle: generate (+1) and overcome (+2) with their inverses; direction of each element.  p = []
pub fn c19i_element(i: &mut In, _p: &[i64]) {
  let e = i.int(0, 4);
  let x = Element::from_index(e as isize);
  let g = x.get_reinforce().get_index() as i64;
  let o = x.get_restrain().get_index() as i64;
  assert!(g == md(e + 1, 5) && o == md(e + 2, 5));
  assert!(Element::from_index(g as isize).get_reinforced().get_index() as i64 == e);
  assert!(Element::from_index(o as isize).get_restrained().get_index() as i64 == e);
  assert!(x.get_direction().get_index() as i64 == ELEMENT_DIRECTION[e as usize]);
  // a direction's element is consistent with the element's direction
  assert!(Direction::from_index(ELEMENT_DIRECTION[e as usize] as isize).get_element().get_index() as i64 == e);
  witness!(e == 4, "water");
  std::mem::forget(x);
}

/// 19.j  zodiac sign of every month-day: boundaries 3/21 4/20 5/21 6/22 7/23 8/23 9/23 10/24 11/23 12/22 1/20 2/19.  p = []
pub fn c19j_constellation(i: &mut In, _p: &[i64]) {
  let m = i.int(1, 12);
  let d = i.int(1, 31);
  i.assume(crate::refcal::valid(2000, m, d));
  // first day of the sign that begins in month m (Aries = 0 begins in March)
  const START_DAY: [i64; 12] = [20, 19, 21, 20, 21, 22, 23, 23, 23, 24, 23, 22];
  let sign_beginning_in_month = md(m - 3, 12);
  let exp = if d >= START_DAY[(m - 1) as usize] { sign_beginning_in_month } else { md(sign_beginning_in_month - 1, 12) };
  let c = SolarDay::from_ymd(2000, m as usize, d as usize).get_constellation();
  assert!(c.get_index() as i64 == exp);
  witness!(m == 12 && d == 22, "Capricorn begins");
  std::mem::forget(c);
}

/// 19.k  28 mansions: luminary = (index + 4) mod 7 (角 = 木), zone = index / 7 (east, north, west, south), animal =
/// index; nine stars: direction and dipper star by index, element by palace (1 水 2 土 3 木 4 木 5 土 6 金 7 金 8 土 9 火);
/// twelve spirits: the six yellow-path spirits 青龙 明堂 金匮 天德 玉堂 司命.  p = []
pub fn c19k_stars(i: &mut In, _p: &[i64]) {
  let k = i.int(0, 27);
  let s = TwentyEightStar::from_index(k as isize);
  assert!(s.get_seven_star().get_index() as i64 == md(k + 4, 7));
  assert!(s.get_zone().get_index() as i64 == k / 7);
  assert!(s.get_animal().get_index() as i64 == k);
  // nine fields (九野): 钧天 角亢氐, 苍天 房心尾, 变天 箕斗牛, 玄天 女虚危室, 幽天 壁奎娄, 颢天 胃昴毕, 朱天 觜参井, 炎天 鬼柳星, 阳天 张翼轸
  // (field indices: 玄0 朱1 苍2 阳3 钧4 幽5 颢6 变7 炎8)
  let field = if k < 3 { 4 } else if k < 6 { 2 } else if k < 9 { 7 } else if k < 13 { 0 } else if k < 16 { 5 } else if k < 19 { 6 } else if k < 22 { 1 } else if k < 25 { 8 } else { 3 };
  assert!(s.get_land().get_index() as i64 == field);
  std::mem::forget(s);
  let n = i.int(0, 8);
  let ns = NineStar::from_index(n as isize);
  const NINE_ELEMENT: [i64; 9] = [4, 2, 0, 0, 2, 3, 3, 2, 1];
  assert!(ns.get_element().get_index() as i64 == NINE_ELEMENT[n as usize]);
  assert!(ns.get_direction().get_index() as i64 == n && ns.get_dipper().get_index() as i64 == n);
  std::mem::forget(ns);
  let t = i.int(0, 11);
  let ts = TwelveStar::from_index(t as isize);
  let yellow = t == 0 || t == 1 || t == 4 || t == 5 || t == 7 || t == 10;
  assert!((ts.get_ecliptic().get_index() == 0) == yellow);
  assert!(ts.get_ecliptic().get_luck().get_index() == ts.get_ecliptic().get_index());
  witness!(k == 27 && n == 8 && t == 11, "last of each");
  std::mem::forget(ts);
}

/// 19.l  eight-character derived signs on symbolic pillars (built by index, no names in):
///   part 0 foetal origin = month stem + 1, month branch + 3;  part 1 foetal breath = the pillar combining with the day
///   pillar (stem five-combination, branch six-combination);  part 2 own sign (命宫): counting 寅 = 1 .. 丑 = 12, month number
///   + hour number + sign number = 14 or 26, stem by the Five-Tigers rule from the year stem;  part 3 body sign (身宫):
///   month number + hour number counted from 子 ... (same stem rule).  Only legal pillars go in.  p = [part, year stem]
pub fn c19l_eight_char(i: &mut In, p: &[i64]) {
  use tyme4rs::tyme::eightchar::EightChar;
  // parts 2 / 3 depend on the year stem, the month branch and the hour branch only: the year pillar is fixed per job
  // (p[1] = 0..9, pillar index = stem index), month and hour range over the twelve branches (pillars 0..11), day fixed
  let (y, m, d, h) = if p[0] >= 2 { (p[1], i.int(0, 11), 0, i.int(0, 11)) } else if p[0] == 0 { (0, i.int(0, 59), 0, 0) } else { (0, 0, i.int(0, 59), 0) };
  let ec = EightChar::from_sixty_cycle(SixtyCycle::from_index(y as isize), SixtyCycle::from_index(m as isize), SixtyCycle::from_index(d as isize), SixtyCycle::from_index(h as isize));
  let tiger = |ys: i64, branch: i64| -> i64 { md((ys % 5) * 2 + 2 + md(branch - 2, 12), 10) };
  if p[0] == 0 {
    let r = ec.get_fetal_origin();
    assert!(r.get_heaven_stem().get_index() as i64 == md(m % 10 + 1, 10) && r.get_earth_branch().get_index() as i64 == md(m % 12 + 3, 12));
    std::mem::forget(r);
  } else if p[0] == 1 {
    let r = ec.get_fetal_breath();
    let (ds, db) = (d % 10, d % 12);
    let (mut es, mut eb) = (-1, -1);
    let mut k = 0;
    while k < 6 {
      if k < 5 { let (a, b, _) = FIVE_COMBINE[k]; if ds == a { es = b; } if ds == b { es = a; } }
      let (a, b, _) = SIX_COMBINE[k]; if db == a { eb = b; } if db == b { eb = a; }
      k += 1;
    }
    assert!(r.get_heaven_stem().get_index() as i64 == es && r.get_earth_branch().get_index() as i64 == eb);
    std::mem::forget(r);
  } else if p[0] == 2 {
    let r = ec.get_own_sign();
    // numbers counted from 寅 = 1
    let mn = md(m % 12 - 2, 12) + 1;
    let hn = md(h % 12 - 2, 12) + 1;
    let sum = mn + hn;
    let sign_no = if sum < 14 { 14 - sum } else { 26 - sum };
    let branch = md(sign_no - 1 + 2, 12);
    assert!(r.get_earth_branch().get_index() as i64 == branch);
    assert!(r.get_heaven_stem().get_index() as i64 == tiger(y % 10, branch));
    witness!(sum == 14, "month and hour numbers add up to exactly 14");
    std::mem::forget(r);
  } else {
    let r = ec.get_body_sign();
    // 身宫: from 寅 as the first month count forward to the birth month, then onward by the hour counted from 子
    let branch = md(2 + md(m % 12 + h % 12 - 1, 12), 12);
    assert!(r.get_earth_branch().get_index() as i64 == branch);
    assert!(r.get_heaven_stem().get_index() as i64 == tiger(y % 10, branch));
    std::mem::forget(r);
  }
  std::mem::forget(ec);
}

pub fn registry() -> Vec<(&'static str, Body)> {
  vec![
    ("c19::c19l_eight_char", c19l_eight_char as Body),
    ("c19::c19a_stem_basic", c19a_stem_basic as Body), ("c19::c19b_terrain", c19b_terrain), ("c19::c19c_ten_star", c19c_ten_star),
    ("c19::c19d_stem_combine", c19d_stem_combine), ("c19::c19e_branch_basic", c19e_branch_basic), ("c19::c19f_hidden", c19f_hidden),
    ("c19::c19g_branch_relations", c19g_branch_relations), ("c19::c19h_pillar", c19h_pillar), ("c19::c19i_element", c19i_element),
    ("c19::c19j_constellation", c19j_constellation), ("c19::c19k_stars", c19k_stars),
  ]
}
