//! C11 — stepping is a group action.  See DESIGN.md §5 C11.
use tyme4rs::tyme::Tyme;
use tyme4rs::tyme::culture::*;
use tyme4rs::tyme::culture::dog::Dog;
use tyme4rs::tyme::culture::nine::Nine;
use tyme4rs::tyme::culture::plumrain::PlumRain;
use tyme4rs::tyme::culture::phenology::{Phenology, ThreePhenology};
use tyme4rs::tyme::culture::peng_zu::{PengZuEarthBranch, PengZuHeavenStem};
use tyme4rs::tyme::culture::ren::minor::MinorRen;
use tyme4rs::tyme::culture::fetus::{FetusEarthBranch, FetusHeavenStem, FetusMonth};
use tyme4rs::tyme::culture::star::nine::{Dipper, NineStar};
use tyme4rs::tyme::culture::star::ten::TenStar;
use tyme4rs::tyme::culture::star::twenty_eight::TwentyEightStar;
use tyme4rs::tyme::culture::star::six::SixStar;
use tyme4rs::tyme::culture::star::twelve::{Ecliptic, TwelveStar};
use tyme4rs::tyme::culture::star::seven::SevenStar;
use tyme4rs::tyme::sixtycycle::{EarthBranch, HeavenStem, SixtyCycle, SixtyCycleYear};
use tyme4rs::tyme::lunar::{LunarMonth, LunarSeason, LunarYear};
use tyme4rs::tyme::solar::{SolarTerm, SolarYear};
use crate::nd::In;
use crate::{witness, Body};

/// (name, size from the cycle's definition — not read from the source arrays)
pub const LOOP_TYPES: [(&str, i64); 42] = [
  ("Animal", 28), ("Beast", 4), ("Constellation", 12), ("Direction", 9), ("Duty", 12), ("Element", 5), ("God", 151), ("Land", 9),
  ("Luck", 2), ("Phase", 30), ("Sixty", 3), ("Sound", 30), ("Taboo", 141), ("Ten", 6), ("Terrain", 12), ("Twenty", 9), ("Week", 7),
  ("Zodiac", 12), ("Zone", 4), ("Dog", 3), ("Nine", 9), ("PlumRain", 2), ("Phenology", 72), ("ThreePhenology", 3),
  ("PengZuHeavenStem", 10), ("PengZuEarthBranch", 12), ("MinorRen", 6), ("FetusHeavenStem", 5), ("FetusEarthBranch", 6),
  ("FetusMonth", 12), ("Dipper", 9), ("NineStar", 9), ("TenStar", 10), ("TwentyEightStar", 28), ("SixStar", 6), ("Ecliptic", 2),
  ("TwelveStar", 12), ("SevenStar", 7), ("HeavenStem", 10), ("EarthBranch", 12), ("SixtyCycle", 60), ("LunarSeason", 12),
];

fn md(a: i64, n: i64) -> i64 { ((a % n) + n) % n }

/// 11.d  one function per cyclic type (so that each harness only pulls in its own type): from_index(i).next(n) has
/// index (i+n) mod N and size N.  Under Kani AbstractCulture::index_of is its relational specification (engine B
/// proves the real one against it for every size), so what this obligation decides is the wiring of each
/// copy-pasted type: which table, which argument, which size.  Natively the real index_of runs.  p = []
macro_rules! loop_fn {
  ($f:ident, $t:ty, $size:expr) => {
    pub fn $f(i: &mut In, _p: &[i64]) {
      let size: i64 = $size;
      let idx = i.int(-(1 << 31), 1 << 31);
      let n = i.int(-(1 << 31), 1 << 31);
      let x = <$t>::from_index(idx as isize);
      let (s0, a) = (x.get_size() as i64, x.get_index() as i64);
      let y = x.next(n as isize);
      let (b, s1) = (y.get_index() as i64, y.get_size() as i64);
      std::mem::forget(x);
      std::mem::forget(y);
      assert!(s0 == size && s1 == size);
      assert!(0 <= a && a < size && 0 <= b && b < size);
      #[cfg(kani)]
      {
        // wiring: index_of(idx, N) ; index_of(a + n, N) ; index_of(that, N)
        assert!(crate::env::ix_calls() == 3);
        let (c0, c1, c2) = (crate::env::ix_log(0), crate::env::ix_log(1), crate::env::ix_log(2));
        assert!(c0 == (idx, size, a));
        assert!(c1.0 == a + n && c1.1 == size);
        assert!(c2.0 == c1.2 && c2.1 == size && c2.2 == b);
        assert!(b == c1.2);
      }
      #[cfg(not(kani))]
      {
        assert!(a == md(idx, size));
        assert!(b == md(idx + n, size));
      }
      witness!(n < 0 && idx < 0, "negative index and step");
    }
  };
}
loop_fn!(c11d_animal, Animal, 28);
loop_fn!(c11d_beast, Beast, 4);
loop_fn!(c11d_constellation, Constellation, 12);
loop_fn!(c11d_direction, Direction, 9);
loop_fn!(c11d_duty, Duty, 12);
loop_fn!(c11d_element, Element, 5);
loop_fn!(c11d_god, God, 151);
loop_fn!(c11d_land, Land, 9);
loop_fn!(c11d_luck, Luck, 2);
loop_fn!(c11d_phase, Phase, 30);
loop_fn!(c11d_sixty, Sixty, 3);
loop_fn!(c11d_sound, Sound, 30);
loop_fn!(c11d_taboo, Taboo, 141);
loop_fn!(c11d_ten, Ten, 6);
loop_fn!(c11d_terrain, Terrain, 12);
loop_fn!(c11d_twenty, Twenty, 9);
loop_fn!(c11d_week, Week, 7);
loop_fn!(c11d_zodiac, Zodiac, 12);
loop_fn!(c11d_zone, Zone, 4);
loop_fn!(c11d_dog, Dog, 3);
loop_fn!(c11d_nine, Nine, 9);
loop_fn!(c11d_plumrain, PlumRain, 2);
loop_fn!(c11d_phenology, Phenology, 72);
loop_fn!(c11d_threephenology, ThreePhenology, 3);
loop_fn!(c11d_pengzuheavenstem, PengZuHeavenStem, 10);
loop_fn!(c11d_pengzuearthbranch, PengZuEarthBranch, 12);
loop_fn!(c11d_minorren, MinorRen, 6);
loop_fn!(c11d_fetusheavenstem, FetusHeavenStem, 5);
loop_fn!(c11d_fetusearthbranch, FetusEarthBranch, 6);
loop_fn!(c11d_fetusmonth, FetusMonth, 12);
loop_fn!(c11d_dipper, Dipper, 9);
loop_fn!(c11d_ninestar, NineStar, 9);
loop_fn!(c11d_tenstar, TenStar, 10);
loop_fn!(c11d_twentyeightstar, TwentyEightStar, 28);
loop_fn!(c11d_sixstar, SixStar, 6);
loop_fn!(c11d_ecliptic, Ecliptic, 2);
loop_fn!(c11d_twelvestar, TwelveStar, 12);
loop_fn!(c11d_sevenstar, SevenStar, 7);
loop_fn!(c11d_heavenstem, HeavenStem, 10);
loop_fn!(c11d_earthbranch, EarthBranch, 12);
loop_fn!(c11d_sixtycycle, SixtyCycle, 60);
loop_fn!(c11d_lunarseason, LunarSeason, 12);

/// 11.c  solar term: from_index(y, i).next(n) and from_index(y, i + n) both denote term number 24*y + i + n.
/// calc_qi is ENV-A; index_of real.  p = [nmax]
pub fn c11c_term(i: &mut In, p: &[i64]) {
  let y = i.int(2, 9998);
  let idx = i.int(0, 23);
  let n = i.int(-p[0], p[0]);
  // "whose results stay in range": the target term lies in a year >= 1 (for |n| > 47 a step from year 2..4 would leave it; the code's
  // truncating division is then off, which is outside the property)
  i.assume(24 * y + idx + n >= 24);
  let t = SolarTerm::from_index(y as isize, idx as isize);
  assert!(t.get_year() as i64 == y && t.get_index() as i64 == idx && t.get_size() == 24);
  let u = t.next(n as isize);
  let v = SolarTerm::from_index(y as isize, (idx + n) as isize);
  let tot = 24 * y + idx + n;
  assert!(24 * (u.get_year() as i64) + u.get_index() as i64 == tot);
  assert!((u.get_index() as i64) < 24);
  assert!(v.get_year() == u.get_year() && v.get_index() == u.get_index());
  assert!(u.is_jie() == (u.get_index() % 2 == 1) && u.is_qi() != u.is_jie());
  witness!(n < 0 && (u.get_year() as i64) < y, "back across a year");
  witness!(n > 24, "more than a year ahead");
  std::mem::forget(t);
  std::mem::forget(u);
  std::mem::forget(v);
}

fn month_count(leap: usize) -> i64 { if leap > 0 { 13 } else { 12 } }
/// index in year of (month m, leap flag) in a year whose leap month is `leap`
pub fn idx_in_year(m: i64, is_leap: bool, leap: usize) -> i64 {
  m - 1 + if is_leap || (leap > 0 && m > leap as i64) { 1 } else { 0 }
}

/// 11.e  lunar month stepping moves by exactly n months on the month line of ANY leap table: with
/// ord(month) = (months of all earlier years of the window) + index in year, ord(x.next(n)) = ord(x) + n.
/// Hence next(0) = x, next(a) then next(b) = next(a+b), next(n) then next(-n) = x.
/// ENV-A (calc_shuo/calc_qi arbitrary), ENV-L (leap table symbolic on the window), from_ym without the memo.
/// p = [y0, window, nmax]
pub fn c11e_lunar_month(i: &mut In, p: &[i64]) {
  let (y0, w, nmax) = (p[0], p[1] as usize, p[2]);
  let (shift, leap) = crate::env::leap_window(i, y0, w);
  let y0 = y0 + shift;
  let y = i.int(p[0] + 1, p[0] + w as i64 - 1) + shift;
  let m = i.int(1, 12);
  let is_leap = i.int(0, 1) == 1;
  let n = i.int(-nmax, nmax);
  let ly = leap[(y - y0) as usize];
  i.assume(!is_leap || ly as i64 == m);
  // ordinals from the table
  let mut before = 0i64;
  let mut k = 0usize;
  while (k as i64) < y - y0 { before += month_count(leap[k]); k += 1; }
  let ord = before + idx_in_year(m, is_leap, ly);
  let total: i64 = { let mut s = 0; let mut k = 0; while k < w { s += month_count(leap[k]); k += 1; } s };
  // the target must lie in years y0+1 .. (the constructor also reads the previous year's leap month)
  i.assume(ord + n >= month_count(leap[0]) && ord + n < total);
  let x = LunarMonth::from_ym(y as isize, if is_leap { -m } else { m } as isize);
  assert!(x.get_index_in_year() as i64 == idx_in_year(m, is_leap, ly));
  let z = x.next(n as isize);
  // decode z against the table
  let zy = z.get_year() as i64;
  assert!(zy >= y0 + 1 && zy < y0 + w as i64);
  let zl = leap[(zy - y0) as usize];
  let zm = z.get_month() as i64;
  assert!(1 <= zm && zm <= 12);
  assert!(!z.is_leap() || zl as i64 == zm);
  let mut zb = 0i64;
  let mut k = 0usize;
  while (k as i64) < zy - y0 { zb += month_count(leap[k]); k += 1; }
  let zord = zb + idx_in_year(zm, z.is_leap(), zl);
  assert!(zord == ord + n);
  assert!(z.get_index_in_year() as i64 == idx_in_year(zm, z.is_leap(), zl));
  assert!(z.get_month_with_leap() as i64 == if z.is_leap() { -zm } else { zm });
  witness!(n < 0 && zy < y, "back across a year");
  witness!(n > 0 && zy > y + 1, "forward across two year ends");
  witness!(z.is_leap(), "lands on a leap month");
  witness!(is_leap && n == 1 && zm == m + 1, "from a leap month to the next month");
  witness!(n == 0, "zero step");
}

/// 11.f  lunar year / sexagenary year: year + n; constructors refuse outside -1..9999.  p = []
pub fn c11f_years(i: &mut In, _p: &[i64]) {
  let y = i.int(-5, 10005);
  let n = i.int(-10010, 10010);
  let ok = -1 <= y && y <= 9999;
  assert!(LunarYear::new(y as isize).is_ok() == ok);
  assert!(SixtyCycleYear::new(y as isize).is_ok() == ok);
  if ok && -1 <= y + n && y + n <= 9999 {
    assert!(LunarYear::from_year(y as isize).next(n as isize).get_year() as i64 == y + n);
    assert!(SixtyCycleYear::from_year(y as isize).next(n as isize).get_year() as i64 == y + n);
  }
  let oks = 1 <= y && y <= 9999;
  assert!(SolarYear::new(y as isize).is_ok() == oks);
  if oks && 1 <= y + n && y + n <= 9999 {
    assert!(SolarYear::from_year(y as isize).next(n as isize).get_year() as i64 == y + n);
  }
  witness!(ok && n < 0, "backwards");
  witness!(y == 10000, "year 10000 refused");
}

pub fn registry() -> Vec<(&'static str, Body)> {
  vec![
    ("c11::c11d_animal", c11d_animal as Body),
    ("c11::c11d_beast", c11d_beast as Body),
    ("c11::c11d_constellation", c11d_constellation as Body),
    ("c11::c11d_direction", c11d_direction as Body),
    ("c11::c11d_duty", c11d_duty as Body),
    ("c11::c11d_element", c11d_element as Body),
    ("c11::c11d_god", c11d_god as Body),
    ("c11::c11d_land", c11d_land as Body),
    ("c11::c11d_luck", c11d_luck as Body),
    ("c11::c11d_phase", c11d_phase as Body),
    ("c11::c11d_sixty", c11d_sixty as Body),
    ("c11::c11d_sound", c11d_sound as Body),
    ("c11::c11d_taboo", c11d_taboo as Body),
    ("c11::c11d_ten", c11d_ten as Body),
    ("c11::c11d_terrain", c11d_terrain as Body),
    ("c11::c11d_twenty", c11d_twenty as Body),
    ("c11::c11d_week", c11d_week as Body),
    ("c11::c11d_zodiac", c11d_zodiac as Body),
    ("c11::c11d_zone", c11d_zone as Body),
    ("c11::c11d_dog", c11d_dog as Body),
    ("c11::c11d_nine", c11d_nine as Body),
    ("c11::c11d_plumrain", c11d_plumrain as Body),
    ("c11::c11d_phenology", c11d_phenology as Body),
    ("c11::c11d_threephenology", c11d_threephenology as Body),
    ("c11::c11d_pengzuheavenstem", c11d_pengzuheavenstem as Body),
    ("c11::c11d_pengzuearthbranch", c11d_pengzuearthbranch as Body),
    ("c11::c11d_minorren", c11d_minorren as Body),
    ("c11::c11d_fetusheavenstem", c11d_fetusheavenstem as Body),
    ("c11::c11d_fetusearthbranch", c11d_fetusearthbranch as Body),
    ("c11::c11d_fetusmonth", c11d_fetusmonth as Body),
    ("c11::c11d_dipper", c11d_dipper as Body),
    ("c11::c11d_ninestar", c11d_ninestar as Body),
    ("c11::c11d_tenstar", c11d_tenstar as Body),
    ("c11::c11d_twentyeightstar", c11d_twentyeightstar as Body),
    ("c11::c11d_sixstar", c11d_sixstar as Body),
    ("c11::c11d_ecliptic", c11d_ecliptic as Body),
    ("c11::c11d_twelvestar", c11d_twelvestar as Body),
    ("c11::c11d_sevenstar", c11d_sevenstar as Body),
    ("c11::c11d_heavenstem", c11d_heavenstem as Body),
    ("c11::c11d_earthbranch", c11d_earthbranch as Body),
    ("c11::c11d_sixtycycle", c11d_sixtycycle as Body),
    ("c11::c11d_lunarseason", c11d_lunarseason as Body),
    ("c11::c11c_term", c11c_term),
    ("c11::c11e_lunar_month", c11e_lunar_month),
    ("c11::c11f_years", c11f_years),
  ]
}
