"""Engine B, part 2: queries.  Each query is (declarations, assumptions, negated goal); `unsat` from BOTH z3 and cvc5
means the goal holds for every input in the stated ranges; `sat` gives a model (concrete inputs) that the caller
replays natively; anything else (unknown, error line, disagreement) is inconclusive."""
import subprocess, re, time, shutil
from .mir import PRELUDE

SOLVERS = [("z3", ["z3", "-in", "-t:30000"]), ("cvc5", ["cvc5", "--lang", "smt2", "--incremental", "--produce-models", "--tlimit-per=30000"])]   # 30 s per query
FALLBACK = ("z3-new", ["z3-new", "-in", "-t:30000"])   # z3 5.1: asked only about queries on which one of the two gave no answer


def available():
    return [(n, c) for n, c in SOLVERS if shutil.which(c[0])]


def build_script(decls, queries):
    """decls: {name: (sort, lo, hi)}; queries: list of (qid, [assumption strings], negated-goal string, [value names])"""
    out = [PRELUDE, "(set-option :produce-models true)"] if False else ["(set-option :produce-models true)", PRELUDE]
    for n, (sort, lo, hi) in decls.items():
        out.append("(declare-const %s %s)" % (n, sort))
        if sort == "Int" and lo is not None:
            out.append("(assert (and (<= %s %s) (<= %s %s)))" % (lit(lo), n, n, lit(hi)))
    for qid, assumes, neg_goal, names in queries:
        out.append("(push 1)")
        out.append('(echo "BEGIN %s")' % qid)
        for a in assumes:
            out.append("(assert %s)" % a)
        out.append("(assert %s)" % neg_goal)
        out.append("(check-sat)")
        if names:
            out.append("(get-value (%s))" % " ".join(names))
        out.append('(echo "END %s")' % qid)
        out.append("(pop 1)")
    return "\n".join(out) + "\n"


def lit(n):
    return str(n) if n >= 0 else "(- %d)" % -n


def run_solver(cmd, script, timeout=1500):
    t0 = time.time()
    try:
        p = subprocess.run(cmd, input=script, stdout=subprocess.PIPE, stderr=subprocess.STDOUT, text=True, timeout=timeout)
        out = p.stdout
    except subprocess.TimeoutExpired:
        out = "TIMEOUT"
    return out, time.time() - t0


def parse_output(out):
    """-> {qid: (verdict, model dict or None, raw)}"""
    res = {}
    cur, buf = None, []
    for ln in out.splitlines():
        s = ln.strip().strip('"')
        if s.startswith("BEGIN "):
            cur, buf = s[6:], []
        elif s.startswith("END ") and cur is not None:
            raw = "\n".join(buf)
            verdict = "unknown"
            if "(error" in raw or "error" in raw.lower() and "unsat" not in raw.split("\n")[0]:
                verdict = "error"
            else:
                first = buf[0].strip() if buf else ""
                if first in ("sat", "unsat", "unknown"):
                    verdict = first
            model = None
            if verdict == "sat":
                model = {}
                for m in re.finditer(r"\((\|[^|]*\||[^\s()]+)\s+(\(-\s*\d+\)|-?\d+|true|false)\)", raw):
                    v = m.group(2)
                    if v.startswith("("):
                        v = "-" + re.sub(r"[^\d]", "", v)
                    model[m.group(1)] = v
            if verdict == "unsat" and "(error" in raw:
                verdict = "error"
            res[cur] = (verdict, model, raw)
            cur = None
        elif cur is not None:
            buf.append(ln)
    return res


def decide(decls, queries):
    """returns {qid: {"verdict": holds|cex|inconclusive, "model":..., "solvers": {...}}}, stats, script.
    Pass 1 asks for verdicts only (so that any `(error` line really is an error); pass 2 re-asks the satisfiable
    queries with get-value to obtain models."""
    script = build_script(decls, [(q, a, g, []) for q, a, g, _ in queries])
    per = {}
    stats = {}
    import threading
    outs = {}

    def work(name, cmd):
        outs[name] = run_solver(cmd, script)
    ths = [threading.Thread(target=work, args=(n, c)) for n, c in available()]
    for t in ths:
        t.start()
    for t in ths:
        t.join()
    for name, cmd in available():
        out, dt = outs[name]
        per[name] = parse_output(out) if out != "TIMEOUT" else {}
        stats[name] = round(dt, 2)
    undecided = [(q, a, g, []) for q, a, g, _ in queries if any(per[n].get(q, ("missing",))[0] not in ("sat", "unsat") for n in per)]
    if undecided and shutil.which(FALLBACK[1][0]):
        out, dt = run_solver(FALLBACK[1], build_script(decls, undecided))
        fb = parse_output(out) if out != "TIMEOUT" else {}
        stats[FALLBACK[0]] = round(dt, 2)
        for q, _, _, _ in undecided:
            # the fallback replaces the solver that gave no answer
            for n in list(per):
                if per[n].get(q, ("missing",))[0] not in ("sat", "unsat") and q in fb:
                    per[n][q] = fb[q]
                    break
    sat_q = [(q, a, g, names) for q, a, g, names in queries if names and any(per[n].get(q, ("",))[0] == "sat" for n in per)]
    models = {}
    if sat_q:
        script2 = build_script(decls, sat_q)
        for name, cmd in available():
            out, dt = run_solver(cmd, script2)
            stats[name] = round(stats.get(name, 0) + dt, 2)
            for q, (v, model, raw) in parse_output(out).items():
                if v == "sat" and model and q not in models:
                    models[q] = model
    final = {}
    for qid, _, _, _ in queries:
        vs = {n: per[n].get(qid, ("missing", None, ""))[0] for n in per}
        if len(vs) >= 2 and all(v == "unsat" for v in vs.values()):
            final[qid] = {"verdict": "holds", "solvers": vs}
        elif len(vs) >= 2 and all(v == "sat" for v in vs.values()):
            final[qid] = {"verdict": "cex", "model": models.get(qid, {}), "solvers": vs}
        else:
            final[qid] = {"verdict": "inconclusive", "solvers": vs, "raw": {n: per[n].get(qid, ("", None, ""))[2][:300] for n in per}}
    return final, stats, script


def feasible(decls, assumes):
    """False only if z3 AND cvc5 both answer `unsat` for the conjunction; True on sat, unknown, error or disagreement"""
    script = build_script(decls, [("f", list(assumes), "true", [])])
    for name, cmd in available():
        out, _ = run_solver(cmd, script, timeout=20)
        res = parse_output(out) if out != "TIMEOUT" else {}
        if res.get("f", ("unknown",))[0] != "unsat":
            return True
    return True if not available() else False
