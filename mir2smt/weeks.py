"""Engine B kernels for weeks of a month (C14, and the week clause of C11): civil and lunar.
Months are objects on a month line: MonV(off) = the starting month + off, with first-day numbers F[off] that tile through arbitrary
month lengths (civil 21..31, lunar 29..30).  The first of a month falls on weekday (F + 1) mod 7 (07.a)."""
import os
from . import mir as M
from .mir import T, I, B, Rec, Ref, Variant, Opaque, Unsupported
from .kernels import run_kernel, struct_fields, REPO
from .pillars import _ctx, _finish
from .objmodel import Obj, smod


class MonV(Rec):
    """a month of the month line; direct field reads (self.month, self.year.year inside inlined month methods) are answered from the
    same identifiers as the getters"""
    resolver = None

    def __init__(self, off):
        self.off = off
        self.fields = {}
        self.name = "month%d" % off

    def field(self, k, ty):
        return MonV.resolver(self.off, k, ty)


class FirstDay:
    def __init__(self, off):
        self.off = off


class DayN:
    def __init__(self, t):
        self.t = t


class Tagged(T):
    """an Int term that is 'the year / month number of month off' — lets from_ymd(year, month, 1) be recognised as that month's first day"""
    __slots__ = ("mon",)

    def __init__(self, s, mon):
        T.__init__(self, s, "Int")
        self.mon = mon


CIVIL = dict(month="SolarMonth", day="SolarDay", week="SolarWeek", mget=("SolarMonth::get_year", "SolarMonth::get_month"), src="src/tyme/solar.rs", lens=(21, 31))
LUNAR = dict(month="LunarMonth", day="LunarDay", week="LunarWeek", mget=("LunarMonth::get_year", "LunarMonth::get_month_with_leap"), src="src/tyme/lunar.rs", lens=(29, 30))


def setup(eng, K, method, nargs=None, first_arg=None, fn=None):
    if fn is None:
        fn = M.find_fn(eng.fns, method, first_arg or ("&" + K["week"]), nargs)
    inline = {K["month"] + "::get_week_count": ("get_week_count", "&" + K["month"], None),
              K["week"] + "::get_year": ("get_year", "&" + K["week"], None), K["week"] + "::get_month": ("get_month", "&" + K["week"], None)}
    ctx = _ctx(eng, inline)
    ctx.max_unroll = 4
    wf = struct_fields(os.path.join(REPO, K["src"]), K["week"])
    rec = Rec(ctx, "self", K["week"])
    idx0 = rec.field(wf.index("index"), "usize")
    start = ctx.fresh_value("start", "usize")
    rec.fields[wf.index("start")] = Obj("Week", start)
    rec.fields[wf.index("month")] = MonV(0)
    F = {o: ctx.fresh_value("first_day_of_month_%s%d" % ("p" if o >= 0 else "m", abs(o)), "isize") for o in range(-8, 10)}
    ym = {}
    model = ctx.model
    base = model.call

    def ident(callee, o):
        key = (callee, o)
        if key not in ym:
            nm = ctx.sym("%s_of_month_%d" % (callee.split("::")[1], o))
            ctx.inputs[nm] = ("Int", -(1 << 40), 1 << 40)
            ym[key] = Tagged(nm, o)
        return ym[key]

    mfields = struct_fields(os.path.join(REPO, K["src"]), K["month"])

    def resolve_field(o, k, ty):
        fname = mfields[k] if k < len(mfields) else "?"
        if fname == "month" and not (K is LUNAR):
            return ident(K["mget"][1], o)
        if fname == "year":
            yr = Rec(ctx, "year_of_month_%d" % o, ty)
            yr.field = lambda kk, tt, o=o: ident(K["mget"][0], o)
            return yr
        if fname == "parent":
            return Rec(ctx, "parent")
        if fname == "first_julian_day":
            from .objmodel import JD
            return JD(F[o])
        if fname == "day_count":
            return T("(- %s %s)" % (F[o + 1].s, F[o].s), "Int")
        raise Unsupported("direct read of field %s of %s" % (fname, K["month"]))
    MonV.resolver = staticmethod(resolve_field)

    def call(c, fr, callee, args, path):
        a = [model.deref(c, x) for x in args]
        if a and isinstance(a[0], MonV):
            o = a[0].off
            if o not in F or o + 1 not in F:
                raise Unsupported("month walk left the modelled window")
            if callee in K["mget"]:
                return True, ident(callee, o)
            if callee == "<%s as Tyme>::next" % K["month"] and isinstance(a[1], T) and a[1].c is not None:
                return True, MonV(o + a[1].c)
            if callee == K["month"] + "::get_day_count":
                return True, T("(- %s %s)" % (F[o + 1].s, F[o].s), "Int")
            if callee == K["month"] + "::get_first_julian_day":
                from .objmodel import JD
                return True, JD(F[o])
        if callee == K["month"] + "::from_ym" and len(a) == 2 and all(isinstance(x, T) for x in a) and getattr(ctx, "new_month_args", None) is not None:
            ctx.new_month_args.append(a)
            return True, MonV(0)
        if callee == K["day"] + "::from_ymd" and len(a) == 3 and isinstance(a[0], Tagged) and isinstance(a[1], Tagged) and a[0].mon == a[1].mon and isinstance(a[2], T) and a[2].c == 1:
            return True, FirstDay(a[0].mon)
        if callee == K["day"] + "::get_week" and isinstance(a[0], FirstDay):
            return True, Obj("Week", T("(mod (+ %s 1) 7)" % F[a[0].off].s, "Int"))
        if callee == "JulianDay::get_week" and a and hasattr(a[0], "t"):
            return True, Obj("Week", T("(mod (+ %s 1) 7)" % a[0].t.s, "Int"))
        if callee == "<%s as Tyme>::next" % K["day"] and isinstance(a[0], FirstDay) and isinstance(a[1], T):
            return True, DayN(T("(+ %s %s)" % (F[a[0].off].s, a[1].s), "Int"))
        if callee == "AbstractCulture::index_of" and len(a) == 3 and isinstance(a[1], T) and isinstance(a[2], T) and a[2].c:
            return True, smod(a[1], a[2].c)        # 11.a (engine B on the real index_of): the mathematical remainder; avoids a path split per call
        if callee in ("<Week as PartialEq>::ne", "<Week as PartialEq>::eq") and isinstance(a[0], Obj) and isinstance(a[1], Obj):
            e = T("(= %s %s)" % (a[0].idx.s, a[1].idx.s), "Bool")
            return True, (e if callee.endswith("eq") else T("(not %s)" % e.s, "Bool"))
        return base(c, fr, callee, args, path)
    model.call = call
    lo, hi = K["lens"]
    pre = ["(<= 0 %s 6)" % start.s, "(<= 1721424 %s 5373484)" % F[0].s]
    for o in range(-7, 10):
        pre.append("(<= %d (- %s %s) %d)" % (lo, F[o].s, F[o - 1].s, hi))
    return fn, ctx, rec, idx0, start, F, pre


def off_of(F, o, start):
    return "(mod (- (mod (+ %s 1) 7) %s) 7)" % (F[o].s, start.s)


def count_of(F, o, start):
    return "(div (+ %s (- %s %s) 6) 7)" % (off_of(F, o, start), F[o + 1].s, F[o].s)


def k_week_next(eng, lunar, nmax=None):
    K = LUNAR if lunar else CIVIL
    if nmax is None:
        nmax = 8 if lunar else 6      # civil month lengths range over 21..31: the three-border queries are at the solvers' limit beyond 6
    holder = {}

    def build(eng):
        fn, ctx, rec, idx0, start, F, pre = setup(eng, K, "next", 2)
        holder.update(ctx=ctx)
        n = ctx.fresh_value("n", "isize")
        paths = ctx.run(fn, [("refrec", rec), n])
        pre += ["(<= (- %d) %s %d)" % (nmax, n.s, nmax), "(< %s %s)" % (idx0.s, count_of(F, 0, start))]
        first0 = "(+ (- %s %s) (* 7 %s))" % (F[0].s, off_of(F, 0, start), idx0.s)
        ctor = K["week"] + "::from_ym"

        def shape(p):
            if getattr(p, "cut", False):
                return None
            if lunar and p.ret is rec:
                return None     # n == 0 returns a clone of self on the lunar side
            cl = [c for c in p.calls if c[0] in (ctor, "<%s as Clone>::clone" % K["week"])]
            if not cl or p.ret is not cl[-1][2]:
                return "result is not built by %s" % ctor
            if cl[-1][0] == ctor:
                y, m = cl[-1][1][0], cl[-1][1][1]
                if not (hasattr(y, "mon") and hasattr(m, "mon") and y.mon == m.mon):
                    return "constructor is not given the year and month of one walked month"
            return None

        def posts(p):
            if getattr(p, "cut", False):
                return []
            cl = [c for c in p.calls if c[0] in (ctor, "<%s as Clone>::clone" % K["week"])][-1]
            if cl[0] != ctor:
                return [("zero-step", "(= %s 0)" % n.s)]
            y, m, i2, s2 = cl[1]
            j = y.mon
            first = "(+ (- %s %s) (* 7 %s))" % (F[j].s, off_of(F, j, start), i2.s)
            return [("moves-7n", "(= %s (+ %s (* 7 %s)))" % (first, first0, n.s)), ("valid-index", "(and (<= 0 %s) (< %s %s))" % (i2.s, i2.s, count_of(F, j, start))),
                    ("start", "(= %s %s)" % (s2.s, start.s))]
        return ctx, paths, pre, posts, shape

    def replay(eng, model):
        nat = eng.native("week_scan", 1 if lunar else 0)
        if nat in ("NONE", "PANIC", "UNKNOWN", ""):
            return nat == "PANIC", "native scan: " + (nat or "no output")
        return True, "stepping a week by n does not move its first day by 7n: " + nat

    kid = "14.f/B/lunar-week-next" if lunar else "14.c/B/week-next"
    r = run_kernel(eng, kid, "14.c", "every month start and length table (%d..%d days), every start weekday, every valid index, |n| <= %d; month-border loop unrolled 4 times with the bound proved" % (K["lens"][0], K["lens"][1], nmax),
                   build, None, replay)
    return _finish(r, holder["ctx"]) if "ctx" in holder else r


def k_week_first_day(eng, lunar):
    K = LUNAR if lunar else CIVIL
    holder = {}

    def build(eng):
        fn, ctx, rec, idx0, start, F, pre = setup(eng, K, "get_first_day", 1)
        holder.update(ctx=ctx)
        paths = ctx.run(fn, [("refrec", rec)])
        pre += ["(< %s %s)" % (idx0.s, count_of(F, 0, start))]

        def shape(p):
            return None if isinstance(p.ret, DayN) else "result is not the first day stepped by a number of days"

        def posts(p):
            f = p.ret.t.s
            return [("first-day", "(= %s (+ (- %s %s) (* 7 %s)))" % (f, F[0].s, off_of(F, 0, start), idx0.s)), ("weekday", "(= (mod (+ %s 1) 7) %s)" % (f, start.s)),
                    ("week-0-holds-the-1st", "(=> (= %s 0) (and (<= %s %s) (<= %s (+ %s 6))))" % (idx0.s, f, F[0].s, F[0].s, f)),
                    ("last-week-holds-the-last-day", "(=> (= %s (- %s 1)) (and (<= %s (- %s 1)) (<= (- %s 1) (+ %s 6))))" % (idx0.s, count_of(F, 0, start), f, F[1].s, F[1].s, f))]
        return ctx, paths, pre, posts, shape

    kid = "14.g/B/lunar-week-first-day" if lunar else "14.a/B/week-first-day"
    r = run_kernel(eng, kid, "14.a", "every month start and length (%d..%d days), every start weekday, every valid index" % K["lens"], build, None, None)
    return _finish(r, holder["ctx"]) if "ctx" in holder else r


def k_week_index_in_year(eng):
    """SolarWeek::get_index_in_year: the number of weeks between this week and the week (same start weekday) that contains January 1 of
    the year of the week's month.  Days are day numbers (01.b/01.g), weeks are their first days (14.a), stepping a week moves it by 7 days (14.c)."""
    holder = {}

    class WeekV:
        def __init__(self, t):
            self.t = t

    class YearTag(T):
        __slots__ = ()

    def build(eng):
        wf = struct_fields(os.path.join(REPO, "src/tyme/solar.rs"), "SolarWeek")
        fn = M.find_fn(eng.fns, "get_index_in_year", "&SolarWeek")
        ctx = _ctx(eng, {})
        ctx.max_unroll = 55
        holder.update(ctx=ctx)
        rec = Rec(ctx, "self", "SolarWeek")
        start = ctx.fresh_value("start", "usize")
        rec.fields[wf.index("start")] = Obj("Week", start)
        J = ctx.fresh_value("january_1", "isize")            # day number of January 1 of the year of the week's month
        L = ctx.fresh_value("year_length", "isize")
        Lp = ctx.fresh_value("previous_year_length", "isize")
        M1 = ctx.fresh_value("first_of_the_month", "isize")
        ML = ctx.fresh_value("month_length", "isize")
        idx = ctx.fresh_value("week_index", "usize")
        ynm = ctx.sym("year_of_the_month")
        ctx.inputs[ynm] = ("Int", 1, 9999)
        Y = YearTag(ynm, "Int")
        off = lambda t: "(mod (- (mod (+ %s 1) 7) %s) 7)" % (t, start.s)
        Fself = T("(+ (- %s %s) (* 7 %s))" % (M1.s, off(M1.s), idx.s), "Int")
        W0 = "(- %s %s)" % (J.s, off(J.s))
        model = ctx.model
        base = model.call

        def call(c, fr, callee, args, path):
            a = [model.deref(c, x) for x in args]
            if callee == "SolarWeek::get_first_day":
                if a[0] is rec:
                    return True, DayN(Fself)
                if isinstance(a[0], WeekV):
                    return True, DayN(a[0].t)
            if callee == "SolarWeek::get_year" and a[0] is rec:
                return True, Y
            if callee == "SolarWeek::get_start" and a[0] is rec:
                return True, Obj("Week", start)
            if callee == "SolarWeek::from_ym" and len(a) == 4:
                if not (isinstance(a[0], YearTag) and isinstance(a[1], T) and a[1].c == 1 and isinstance(a[2], T) and a[2].c == 0 and isinstance(a[3], T)):
                    raise Unsupported("a week other than week 0 of January of the week's own year is built")
                return True, WeekV(T("(- %s (mod (- (mod (+ %s 1) 7) %s) 7))" % (J.s, J.s, a[3].s), "Int"))
            if callee == "<SolarWeek as Tyme>::next" and isinstance(a[0], WeekV) and isinstance(a[1], T):
                return True, WeekV(T("(+ %s (* 7 %s))" % (a[0].t.s, a[1].s), "Int"))
            if callee in ("<SolarDay as PartialEq>::ne", "<SolarDay as PartialEq>::eq") and isinstance(a[0], DayN) and isinstance(a[1], DayN):
                e = "(= %s %s)" % (a[0].t.s, a[1].t.s)
                return True, T(e if callee.endswith("eq") else "(not %s)" % e, "Bool")
            if callee == "SolarDay::from_ymd" and len(a) == 3 and isinstance(a[0], YearTag) and isinstance(a[1], T) and a[1].c == 1 and isinstance(a[2], T) and a[2].c == 1:
                return True, DayN(J)
            if callee == "SolarDay::get_week" and isinstance(a[0], DayN):
                return True, Obj("Week", T("(mod (+ %s 1) 7)" % a[0].t.s, "Int"))
            if callee == "<SolarDay as Tyme>::next" and isinstance(a[0], DayN) and isinstance(a[1], T):
                return True, DayN(T("(+ %s %s)" % (a[0].t.s, a[1].s), "Int"))
            if callee == "SolarDay::subtract" and isinstance(a[0], DayN) and isinstance(a[1], DayN):
                return True, T("(- %s %s)" % (a[0].t.s, a[1].t.s), "Int")
            if callee == "SolarDay::get_index_in_year" and isinstance(a[0], DayN):
                t = a[0].t.s
                return True, T("(ite (< %s %s) (- %s (- %s %s)) (ite (< %s (+ %s %s)) (- %s %s) (- %s (+ %s %s))))" % (t, J.s, t, J.s, Lp.s, t, J.s, L.s, t, J.s, t, J.s, L.s), "Int")
            if callee == "AbstractCulture::index_of" and len(a) == 3 and isinstance(a[1], T) and isinstance(a[2], T) and a[2].c:
                return True, smod(a[1], a[2].c)
            return base(c, fr, callee, args, path)
        model.call = call
        paths = ctx.run(fn, [("refrec", rec)])
        count = "(div (+ %s %s 6) 7)" % (off(M1.s), ML.s)
        pre = ["(<= 0 %s 6)" % start.s, "(<= 1721424 %s 5373484)" % J.s, "(<= 355 %s 366)" % L.s, "(<= 355 %s 366)" % Lp.s, "(<= 21 %s 31)" % ML.s,
               "(<= %s %s)" % (J.s, M1.s), "(<= (+ %s %s) (+ %s %s))" % (M1.s, ML.s, J.s, L.s), "(<= 0 %s)" % idx.s, "(< %s %s)" % (idx.s, count)]

        def shape(p):
            return None if getattr(p, "cut", False) or isinstance(p.ret, T) else "result is not a number"
        return ctx, paths, pre, (lambda p: [] if getattr(p, "cut", False) else [("weeks-since-the-week-of-january-1", "(= (* 7 %s) (- %s %s))" % (p.ret.s, Fself.s, W0))]), shape

    def replay(eng, model):
        nat = eng.native("week_index_scan")
        if nat in ("NONE", "PANIC", "UNKNOWN", ""):
            return nat == "PANIC", "native scan: " + (nat or "no output")
        return True, "index in year is not the number of weeks since the week containing January 1: " + nat

    r = run_kernel(eng, "14.d/B/week-index-in-year", "14.d", "every year start and length (355..366), every month inside the year (21..31 days), every start weekday, every valid index; search loop unrolled 55 times with the bound proved",
                   build, None, replay)
    return _finish(r, holder["ctx"]) if "ctx" in holder else r


def _new_scan(lunar):
    def replay(eng, model):
        nat = eng.native("week_new_scan", 1 if lunar else 0)
        if nat in ("NONE", "PANIC", "UNKNOWN", ""):
            return nat == "PANIC", "native scan: " + (nat or "no output")
        return True, "week count / acceptance: " + nat
    return replay


def k_week_count(eng, lunar):
    """get_week_count(start) = the number of weeks (starting on `start`) needed to cover the month: ceil((offset of the 1st + length) / 7)"""
    K = LUNAR if lunar else CIVIL
    holder = {}

    def build(eng):
        fn, ctx, rec, idx0, start, F, pre = setup(eng, K, "get_week_count", 2, "&" + K["month"])
        holder.update(ctx=ctx)
        paths = ctx.run(fn, [("refrec", MonV(0)), start])

        def shape(p):
            return None if isinstance(p.ret, T) else "result is not a number"
        return ctx, paths, pre, (lambda p: [("count", "(= %s %s)" % (p.ret.s, count_of(F, 0, start)))]), shape
    kid = "14.j/B/%s-week-count" % ("lunar" if lunar else "civil")
    r = run_kernel(eng, kid, "14.j", "every month start and length (%d..%d days), every start weekday" % K["lens"], build, None, _new_scan(lunar))
    return _finish(r, holder["ctx"]) if "ctx" in holder else r


def k_week_new(eng, lunar):
    """Week::new(year, month, index, start) is accepted exactly when start <= 6 and index < week count of that very month"""
    K = LUNAR if lunar else CIVIL
    holder = {}

    def build(eng):
        cands = [f for name, fl in eng.fns.items() for f in fl if name.endswith("::new") and len(f.args) == 4 and ("<" + K["week"] + ",") in f.ret.replace("tyme::solar::", "").replace("tyme::lunar::", "")]
        if len(cands) != 1:
            raise Unsupported("%s::new found %d times" % (K["week"], len(cands)))
        fn, ctx, rec, idx0, start, F, pre = setup(eng, K, "new", 4, None, fn=cands[0])
        holder.update(ctx=ctx)
        ctx.new_month_args = []
        year = ctx.fresh_value("year", "isize")
        month = ctx.fresh_value("month", fn.args[1][1])
        index = ctx.fresh_value("index", "usize")
        st = ctx.fresh_value("start_arg", "usize")
        paths = ctx.run(fn, [year, month, index, st])
        pre2 = [x for x in pre if start.s not in x] + ["(<= 0 %s 40)" % index.s, "(<= 0 %s 40)" % st.s, "(<= 1 %s 9999)" % year.s, "(<= (- 12) %s 12)" % month.s]
        off = "(mod (- (mod (+ %s 1) 7) %s) 7)" % (F[0].s, st.s)
        cnt = "(div (+ %s (- %s %s) 6) 7)" % (off, F[1].s, F[0].s)
        okc = "(and (<= %s 6) (< %s %s))" % (st.s, index.s, cnt)

        def shape(p):
            if not isinstance(p.ret, Variant) or p.ret.name not in ("Ok", "Err"):
                return "result is not Ok/Err"
            if p.ret.name == "Ok":
                if len(ctx.new_month_args) == 0:
                    return "accepted without looking the month up"
                if any(not (a[0].s == year.s and a[1].s == month.s) for a in ctx.new_month_args):
                    return "a month other than (year, month) is looked up"
                v = p.ret.value
                named = getattr(v, "named", None)
                if not named or not isinstance(named.get("month"), MonV) or named["month"].off != 0:
                    return "the stored month is not the month looked up"
            return None

        def posts(p):
            if p.ret.name == "Err":
                return [("refused-only-when-invalid", "(not %s)" % okc)]
            named = p.ret.value.named
            out = [("accepted-only-when-valid", okc), ("stores-index", "(= %s %s)" % (named["index"].s, index.s))]
            stv = named.get("start")
            if isinstance(stv, Obj):
                out.append(("stores-start", "(= %s %s)" % (stv.idx.s, st.s)))
            else:
                out.append(("stores-start", "false"))
            return out
        return ctx, paths, pre2, posts, shape
    kid = "14.k/B/%s-week-new" % ("lunar" if lunar else "civil")
    r = run_kernel(eng, kid, "14.k", "every month start and length (%d..%d days), index and start 0..40" % K["lens"], build, None, _new_scan(lunar))
    return _finish(r, holder["ctx"]) if "ctx" in holder else r
