"""Engine B, part 3: the kernels, their specifications, translator validation and the result records."""
import os, re, time, subprocess, random
from . import mir as M
from .mir import T, I, Rec, Ref, Tup, Opaque, Unsupported
from . import solve

REPO = os.environ.get("VERIF_REPO", "/repo")      # development only, see verifkit/kani.py


def struct_fields(src_path, name):
    """field order of `pub struct <name> { ... }` in the current source (MIR addresses fields by index)"""
    s = open(src_path).read()
    m = re.search(r"pub struct %s\s*\{(.*?)\n\}" % re.escape(name), s, re.S)
    if not m:
        raise Unsupported("struct %s not found in %s" % (name, src_path))
    fields = []
    for ln in m.group(1).splitlines():
        ln = ln.split("//")[0].strip()
        mm = re.match(r"^(pub(\([^)]*\))? )?(\w+)\s*:", ln)
        if mm:
            fields.append(mm.group(3))
    return fields


class Engine:
    def __init__(self, scratch_dir, replay_exe=None):
        self.scratch = scratch_dir
        t0 = time.time()
        self.text = M.dump_mir(REPO, os.path.join(scratch_dir, "mir-target"))
        self.fns = M.parse_functions(self.text)
        self.dump_s = time.time() - t0
        self.replay_exe = replay_exe

    def ctx(self, inline):
        c = M.Ctx(self.fns)
        c.inline_map = {}
        for callee, (method, self_ty, ret) in inline.items():
            hits = []
            for name, fl in self.fns.items():
                for f in fl:
                    if (name.endswith("::" + method) or name == method):
                        if self_ty is not None and (not f.args or f.args[0][1] != self_ty):
                            continue
                        if self_ty is None and f.args:
                            continue
                        if ret is not None and f.ret != ret:
                            continue
                        hits.append(f)
            if len(hits) != 1:
                raise Unsupported("inline target %s: %d candidates in the MIR dump" % (callee, len(hits)))
            c.inline_map[callee] = hits[0]
        c.inline = set(c.inline_map)
        return c

    def native(self, *args):
        p = subprocess.run([self.replay_exe, "--eval"] + [str(a) for a in args], stdout=subprocess.PIPE, stderr=subprocess.DEVNULL, text=True, timeout=60)
        self.last_native = ([str(a) for a in args], p.stdout.strip())       # kept in the replay record: `./check --replay` re-runs it
        return p.stdout.strip()


def conj(ts):
    ts = [t for t in ts]
    if not ts:
        return "true"
    return "(and %s)" % " ".join(t.s if isinstance(t, T) else t for t in ts) if len(ts) > 1 else (ts[0].s if isinstance(ts[0], T) else ts[0])


def is_ref_to(v, frame_local=None, field=None):
    return isinstance(v, Ref)


def result(kid, clause, bound, fnames):
    return {"id": kid, "obligation": kid, "engine": "B mir2smt (z3 + cvc5, integer SMT-LIB from rustc MIR)", "clause": clause, "bound": bound,
            "functions": fnames, "status": "inconclusive", "reason": "", "queries": 0, "wall_s": 0.0, "solver_s": 0.0}


def run_kernel(eng, kid, clause, bound, build, validate=None, replay=None):
    """build(eng) -> (ctx, paths, pre[list of str], posts(path) -> [(label, T/str)] , extra decl)"""
    r = result(kid, clause, bound, [])
    t0 = time.time()
    try:
        ctx, paths, pre, post_fn, shape_fn = build(eng)
        r["functions"] = sorted(h.split("(")[0][3:] for h in ctx.functions_seen)
        r["paths"] = len(paths)
        queries = []
        shape_errors = []
        for k, p in enumerate(paths):
            err = shape_fn(p) if shape_fn else None
            if err:
                shape_errors.append("path %d: %s" % (k, err))
                continue
            pcs = [c.s for c in p.pc]
            # reachability of the path under the precondition (vacuity witness): expected sat
            queries.append(("reach/%d" % k, pre + pcs, "true", []))
            for j, (opc, cond, msg) in enumerate(p.obligations):
                queries.append(("ovf/%d/%d" % (k, j), pre + [c.s for c in opc], "(not %s)" % cond.s, sorted(ctx.inputs)))
            for label, goal in post_fn(p):
                g = goal.s if isinstance(goal, T) else goal
                queries.append(("post/%d/%s" % (k, label), pre + pcs, "(not %s)" % g, sorted(ctx.inputs)))
        if shape_errors:
            r["status"], r["reason"] = "inconclusive", "MIR shape not recognised (translator declines): " + "; ".join(shape_errors)[:400]
            return r
        final, stats, script = solve.decide(ctx.inputs, queries)
        r["queries"] = len(queries) * max(1, len(stats))
        r["solver_s"] = round(sum(stats.values()), 2)
        r["solver_times"] = stats
        reach = [q for q in final if q.startswith("reach/")]
        n_reach = sum(1 for q in reach if final[q]["verdict"] == "cex")   # "sat" for reach means reachable
        r["reachable_paths"] = n_reach
        bad = []
        cex = None
        for qid, v in final.items():
            if qid.startswith("reach/"):
                if v["verdict"] == "inconclusive":
                    bad.append(qid + ": " + str(v.get("solvers")))
                continue
            # obligations on unreachable paths are trivially unsat; fine
            if v["verdict"] == "inconclusive":
                bad.append(qid + ": " + str(v.get("solvers")))
            elif v["verdict"] == "cex" and cex is None:
                cex = (qid, v["model"])
        if cex:
            r["status"] = "failed"
            r["model"] = cex[1]
            r["query"] = cex[0]
            r["reason"] = "solver model violates %s" % cex[0]
            if replay:
                eng.last_native = None
                ok, text = replay(eng, cex[1])
                r["reproduced"] = ok
                r["native"] = text
                if getattr(eng, "last_native", None):
                    r["native_cmd"], r["native_out"] = eng.last_native
                if not ok:
                    r["reason"] += " but it does not reproduce natively: " + text[:200]
            return r
        if bad:
            r["status"], r["reason"] = "inconclusive", "; ".join(bad)[:400]
            return r
        if n_reach == 0:
            r["status"], r["reason"] = "inconclusive", "no path reachable under the precondition (vacuous)"
            return r
        if validate:
            ok, text, n = validate(eng, ctx, paths, pre)
            r["translator_validation"] = {"inputs": n, "ok": ok, "detail": text[:300]}
            if not ok:
                r["status"], r["reason"] = "inconclusive", "translator validation failed: " + text[:300]
                return r
        r["status"] = "discharged"
        return r
    except Unsupported as e:
        r["status"], r["reason"] = "inconclusive", "translator declines: %s" % e
        return r
    except Exception as e:  # pragma: no cover
        r["status"], r["reason"] = "inconclusive", "engine B exception: %r" % e
        return r
    finally:
        r["wall_s"] = round(time.time() - t0, 2)


# ================================================================================================ SolarTime::next
def k_solar_time_next(eng, nmax=10 ** 9):
    def build(eng):
        fields = struct_fields(os.path.join(REPO, "src/tyme/solar.rs"), "SolarTime")
        ix = {n: k for k, n in enumerate(fields)}
        for need in ("day", "hour", "minute", "second"):
            if need not in ix:
                raise Unsupported("SolarTime has no field " + need)
        fn = M.find_fn(eng.fns, "next", "&SolarTime")
        ctx = eng.ctx({})
        selfrec = Rec(ctx, "self", "SolarTime")
        h = selfrec.field(ix["hour"], "usize")
        mi = selfrec.field(ix["minute"], "usize")
        s = selfrec.field(ix["second"], "usize")
        n = ctx.fresh_value("n", "isize")
        paths = ctx.run(fn, [("refrec", selfrec), n])
        pre = ["(<= %s 23)" % h.s, "(<= %s 59)" % mi.s, "(<= %s 59)" % s.s, "(<= %d %s)" % (-nmax, n.s) if False else "(<= (- %d) %s)" % (nmax, n.s), "(<= %s %d)" % (n.s, nmax)]
        secs = "(+ (* 3600 %s) (* 60 %s) %s)" % (h.s, mi.s, s.s)
        build.meta = (ctx, selfrec, ix, h, mi, s, n)

        def shape(p):
            names = [c[0] for c in p.calls]
            if names == ["<SolarTime as Clone>::clone"]:
                a = p.calls[0][1]
                if not (len(a) == 1 and isinstance(a[0], tuple) and a[0][1] is selfrec):
                    return "clone of something other than self"
                if p.ret is not p.calls[0][2]:
                    return "zero step does not return the clone"
                return None
            if names != ["<SolarDay as Tyme>::next", "SolarDay::get_year", "SolarDay::get_month", "SolarDay::get_day", "SolarTime::from_ymd_hms"]:
                return "unexpected call sequence %s" % names
            nx = p.calls[0]
            if not (isinstance(nx[1][0], Ref) and nx[1][0].proj and nx[1][0].proj[-1][0] == "field" and nx[1][0].proj[-1][1] == ix["day"]):
                return "SolarDay::next is not called on self.day"
            for c in p.calls[1:4]:
                a = c[1][0]
                if not (isinstance(a, Ref) and a.frame["vals"].get(a.local) is nx[2] and not a.proj):
                    return "%s is not applied to the day returned by SolarDay::next" % c[0]
            ctor = p.calls[4]
            if not (ctor[1][0] is p.calls[1][2] and ctor[1][1] is p.calls[2][2] and ctor[1][2] is p.calls[3][2]):
                return "constructor does not receive year/month/day of the stepped day"
            if p.ret is not ctor[2]:
                return "result is not the constructed instant"
            return None

        def posts(p):
            if len(p.calls) == 1:
                return [("zero", "(= %s 0)" % n.s)]
            td = p.calls[0][1][1]
            th, tm, ts = p.calls[4][1][3], p.calls[4][1][4], p.calls[4][1][5]
            return [
                ("ranges", "(and (<= 0 %s 23) (<= 0 %s 59) (<= 0 %s 59))" % (th.s, tm.s, ts.s)),
                ("sum", "(= (+ (* 86400 %s) (* 3600 %s) (* 60 %s) %s) (+ %s %s))" % (td.s, th.s, tm.s, ts.s, secs, n.s)),
                ("nonzero", "(not (= %s 0))" % n.s),
            ]
        return ctx, paths, pre, posts, shape

    def validate(eng, ctx, paths, pre):
        ctx, selfrec, ix, h, mi, s, n = build.meta
        rnd = random.Random(7)
        cases = [(0, 0, 0, -1), (23, 59, 59, 1), (0, 0, 0, -86400), (12, 30, 30, 86400 * 400 + 7), (5, 6, 7, -21), (13, 14, 15, 3641), (0, 0, 1, -2), (23, 0, 0, 3600), (1, 0, 0, -3600 * 25)]
        for _ in range(12):
            cases.append((rnd.randrange(24), rnd.randrange(60), rnd.randrange(60), rnd.randrange(-10 ** 9, 10 ** 9)))
        queries = []
        for k, (hh, mm, ss, nn) in enumerate(cases):
            pin = ["(= %s %d)" % (h.s, hh), "(= %s %d)" % (mi.s, mm), "(= %s %d)" % (s.s, ss), "(= %s %s)" % (n.s, solve.lit(nn))]
            for j, p in enumerate(paths):
                if len(p.calls) != 5:
                    continue
                td = p.calls[0][1][1]
                th, tm, ts = p.calls[4][1][3], p.calls[4][1][4], p.calls[4][1][5]
                decl = "(and (= vtd %s) (= vth %s) (= vtm %s) (= vts %s))" % (td.s, th.s, tm.s, ts.s)
                queries.append(("val/%d/%d" % (k, j), pin + [c.s for c in p.pc] + [decl], "true", ["vtd", "vth", "vtm", "vts"]))
        decls = dict(ctx.inputs)
        for v in ("vtd", "vth", "vtm", "vts"):
            decls[v] = ("Int", None, None)
        final, stats, _ = solve.decide(decls, queries)
        for k, (hh, mm, ss, nn) in enumerate(cases):
            got = None
            for j in range(len(paths)):
                v = final.get("val/%d/%d" % (k, j))
                if v and v["verdict"] == "cex":
                    got = v["model"]
            if got is None:
                return False, "no path evaluates for input %s" % ((hh, mm, ss, nn),), k
            nat = eng.native("st_next", 2000, 6, 15, hh, mm, ss, nn)
            # native prints: ddays h m s
            exp = [int(x) for x in nat.split()] if nat and nat != "PANIC" else None
            enc = [int(got[v]) for v in ("vtd", "vth", "vtm", "vts")]
            if exp != enc:
                return False, "input %s: encoding %s native %s" % ((hh, mm, ss, nn), enc, exp), k
        return True, "encoding and native SolarTime::next agree on %d inputs (test-suite steps -21, 3641 included)" % len(cases), len(cases)

    def replay(eng, model):
        ctx, selfrec, ix, h, mi, s, n = build.meta
        try:
            hh, mm, ss, nn = (int(model[x.s]) for x in (h, mi, s, n))
        except Exception as e:
            return False, "model incomplete: %r" % e
        nat = eng.native("st_next", 2000, 6, 15, hh, mm, ss, nn)
        if nat == "PANIC":
            return True, "SolarTime(2000-06-15 %02d:%02d:%02d).next(%d) panics" % (hh, mm, ss, nn)
        td, th, tm, ts = [int(x) for x in nat.split()]
        ok = td * 86400 + th * 3600 + tm * 60 + ts == hh * 3600 + mm * 60 + ss + nn and 0 <= th < 24 and 0 <= tm < 60 and 0 <= ts < 60
        return (not ok), "SolarTime(2000-06-15 %02d:%02d:%02d).next(%d) = +%d days %02d:%02d:%02d" % (hh, mm, ss, nn, td, th, tm, ts)

    return run_kernel(eng, "12.a/B/next", "12.a", "every h:m:s, 0 < |n| <= %d; overflow asserts of the compiled code proved" % nmax, build, validate, replay)


# ================================================================================================ SolarTime::subtract
def k_solar_time_subtract(eng):
    """SolarTime::subtract = 86400 * (day-count difference) + clock difference.  The two days are day numbers (C01 01.c/01.f2):
    SolarDay::subtract of them is their difference; any other way of obtaining a day distance (day-of-month fields, month
    comparisons ...) yields values the specification knows nothing about, so a shortcut that bypasses the day count is visible."""
    from .objmodel import Model
    holder = {}

    class DayNum:
        def __init__(self, t):
            self.t = t

    def build(eng):
        fields = struct_fields(os.path.join(REPO, "src/tyme/solar.rs"), "SolarTime")
        ix = {n: k for k, n in enumerate(fields)}
        fn = M.find_fn(eng.fns, "subtract", "&SolarTime")
        ctx = eng.ctx({
            "SolarTime::get_hour": ("get_hour", "&SolarTime", None), "SolarTime::get_minute": ("get_minute", "&SolarTime", None),
            "SolarTime::get_second": ("get_second", "&SolarTime", None), "SolarTime::get_solar_day": ("get_solar_day", "&SolarTime", None)})
        ctx.model = Model()
        a = Rec(ctx, "self", "SolarTime")
        b = Rec(ctx, "target", "SolarTime")
        ah, am, as_ = a.field(ix["hour"], "usize"), a.field(ix["minute"], "usize"), a.field(ix["second"], "usize")
        bh, bm, bs = b.field(ix["hour"], "usize"), b.field(ix["minute"], "usize"), b.field(ix["second"], "usize")
        Oa = ctx.fresh_value("day_number_of_self", "isize")
        Ob = ctx.fresh_value("day_number_of_target", "isize")
        da, db = DayNum(Oa), DayNum(Ob)
        a.fields[ix["day"]] = da
        b.fields[ix["day"]] = db
        model = ctx.model
        base = model.call

        def call(c, fr, callee, args, path):
            v = [model.deref(c, x) for x in args]
            if callee == "SolarDay::subtract" and len(v) == 2 and isinstance(v[0], DayNum) and isinstance(v[1], DayNum):
                return True, T("(- %s %s)" % (v[0].t.s, v[1].t.s), "Int")
            return base(c, fr, callee, args, path)
        model.call = call
        paths = ctx.run(fn, [("refrec", a), b])
        pre = ["(<= %s 23)" % ah.s, "(<= %s 59)" % am.s, "(<= %s 59)" % as_.s, "(<= %s 23)" % bh.s, "(<= %s 59)" % bm.s, "(<= %s 59)" % bs.s,
               "(<= 1721424 %s 5373484)" % Oa.s, "(<= 1721424 %s 5373484)" % Ob.s]
        holder.update(ctx=ctx)

        def shape(p):
            if not isinstance(p.ret, T):
                return "non-scalar result"
            return None

        def posts(p):
            return [("value", "(= %s (+ (* 86400 (- %s %s)) (- (+ (* 3600 %s) (* 60 %s) %s) (+ (* 3600 %s) (* 60 %s) %s))))" % (
                p.ret.s, Oa.s, Ob.s, ah.s, am.s, as_.s, bh.s, bm.s, bs.s))]
        # any integer the code obtains from elsewhere (e.g. day-of-month getters) is small: keeps the overflow obligations meaningful
        for n, (sort, lo, hi) in list(ctx.inputs.items()):
            if n.startswith("|ret") and sort == "Int":
                pre.append("(<= (- 100000000) %s 100000000)" % n)
        return ctx, paths, pre, posts, shape

    def replay(eng, model):
        nat = eng.native("subtract_scan")
        if nat in ("NONE", "PANIC", "UNKNOWN", ""):
            return nat == "PANIC", "native scan: " + (nat or "no output")
        return True, "SolarTime::subtract is not the distance in seconds: " + nat

    return run_kernel(eng, "12.b/B/subtract", "12.b", "every pair of clock times, every pair of day numbers in range", build, None, replay)


# ================================================================================================ index_of
def k_index_of(eng, sizes):
    out = []
    for size in sizes:
        def build(eng, size=size):
            fn = M.find_fn(eng.fns, "index_of", "&AbstractCulture")
            ctx = eng.ctx({})
            idx = ctx.fresh_value("index", "isize")
            paths = ctx.run(fn, [("refrec", Rec(ctx, "self")), idx, I(size)])
            pre = ["(<= (- %d) %s)" % (1 << 62, idx.s), "(<= %s %d)" % (idx.s, 1 << 62)]
            build.meta = (ctx, idx)

            def shape(p):
                if p.calls:
                    return "unexpected calls"
                if not isinstance(p.ret, T):
                    return "non-scalar result"
                return None

            def posts(p):
                return [("mod", "(and (<= 0 %s) (< %s %d) (= (mod (- %s %s) %d) 0))" % (p.ret.s, p.ret.s, size, idx.s, p.ret.s, size))]
            return ctx, paths, pre, posts, shape

        def replay(eng, model, size=size):
            try:
                v = int(list(model.values())[0]) if len(model) == 1 else int(model["|index|"])
            except Exception as e:
                return False, "model incomplete %r" % e
            nat = eng.native("index_of", v, size)
            return (nat != str(v % size)), "index_of(%d, %d) = %s, expected %d" % (v, size, nat, v % size)

        def validate(eng, ctx, paths, pre, size=size):
            ctx, idx = build.meta
            cases = [0, 1, -1, size, -size, size - 1, -size - 1, 7000001, -(1 << 40) + 3, (1 << 50) + 11]
            queries = []
            for k, v in enumerate(cases):
                for j, p in enumerate(paths):
                    queries.append(("val/%d/%d" % (k, j), ["(= %s %s)" % (idx.s, solve.lit(v))] + [c.s for c in p.pc] + ["(= vr %s)" % p.ret.s], "true", ["vr"]))
            decls = dict(ctx.inputs)
            decls["vr"] = ("Int", None, None)
            final, _, _ = solve.decide(decls, queries)
            for k, v in enumerate(cases):
                got = None
                for j in range(len(paths)):
                    r = final.get("val/%d/%d" % (k, j))
                    if r and r["verdict"] == "cex":
                        got = r["model"]["vr"]
                nat = eng.native("index_of", v, size)
                if got is None or got != nat:
                    return False, "index_of(%d,%d): encoding %s native %s" % (v, size, got, nat), k
            return True, "agree on %d inputs" % len(cases), len(cases)

        out.append(run_kernel(eng, "11.a/B/index_of/%d" % size, "11.a", "|index| <= 2^62, size = %d" % size, build, validate if size in (7, 60) else None, replay))
    return out


# ================================================================================================ year*size + index steppers
def k_stepper(eng, kind):
    """kind in month | season | half"""
    spec = {"month": ("&SolarMonth", "SolarMonth", 12, "SolarMonth::from_ym", 1),
            "season": ("&SolarSeason", "SolarSeason", 4, "SolarSeason::from_index", 0),
            "half": ("&SolarHalfYear", "SolarHalfYear", 2, "SolarHalfYear::from_index", 0)}[kind]
    self_ty, sname, size, ctor, base = spec

    def build(eng):
        fields = struct_fields(os.path.join(REPO, "src/tyme/solar.rs"), sname)
        ix = {n: k for k, n in enumerate(fields)}
        yfields = struct_fields(os.path.join(REPO, "src/tyme/solar.rs"), "SolarYear")
        fn = M.find_fn(eng.fns, "next", self_ty)
        ctx = eng.ctx({
            sname + "::get_year": ("get_year", self_ty, None), "SolarYear::get_year": ("get_year", "&SolarYear", None),
            "AbstractCulture::new": ("new", None, "AbstractCulture"), "AbstractCulture::index_of": ("index_of", "&AbstractCulture", None)})
        selfrec = Rec(ctx, "self", sname)
        yrec = selfrec.field(ix["year"], "SolarYear")
        year = yrec.field(yfields.index("year"), "isize")
        idxname = "month" if kind == "month" else "index"
        pos = selfrec.field(ix[idxname], "usize")
        n = ctx.fresh_value("n", "isize")
        paths = ctx.run(fn, [("refrec", selfrec), n])
        pre = ["(<= 1 %s 9999)" % year.s, "(<= %d %s %d)" % (base, pos.s, size - 1 + base), "(<= (- 1000000) %s 1000000)" % n.s]
        build.meta = (ctx, year, pos, n)

        def shape(p):
            names = [c[0] for c in p.calls]
            if names != [ctor]:
                return "unexpected call sequence %s" % names
            if p.ret is not p.calls[0][2]:
                return "result is not the constructed value"
            return None

        def posts(p):
            y2, i2 = p.calls[0][1]
            tot = "(+ (* %d %s) (- %s %d) %s)" % (size, year.s, pos.s, base, n.s)
            return [
                ("index-range", "(<= %d %s %d)" % (base, i2.s, size - 1 + base)),
                # whenever the true target lies in the supported range, the constructor gets exactly it
                ("target", "(=> (and (<= %d %s) (<= %s %d)) (= (+ (* %d %s) (- %s %d)) %s))" % (size, tot, tot, size * 9999 + size - 1, size, y2.s, i2.s, base, tot)),
                # whenever the true target lies outside, the constructor is not handed a valid year (it refuses)
                ("refusal", "(=> (not (and (<= %d %s) (<= %s %d))) (not (<= 1 %s 9999)))" % (size, tot, tot, size * 9999 + size - 1, y2.s)),
            ]
        return ctx, paths, pre, posts, shape

    def replay(eng, model):
        ctx, year, pos, n = build.meta
        try:
            y, i, nn = int(model[year.s]), int(model[pos.s]), int(model[n.s])
        except Exception as e:
            return False, "model incomplete %r" % e
        nat = eng.native(kind + "_next", y, i, nn)
        tot = size * y + (i - base) + nn
        if size <= tot <= size * 9999 + size - 1:
            exp = "%d %d" % (tot // size, tot % size + base)
        else:
            exp = "PANIC"
        return (nat != exp), "%s(%d, %d).next(%d): native %s expected %s" % (sname, y, i, nn, nat, exp)

    def validate(eng, ctx, paths, pre):
        ctx, year, pos, n = build.meta
        cases = [(2023, base, 1), (2023, base, -1), (2023, size - 1 + base, 1), (1, base, 0), (9999, size - 1 + base, 0), (2000, base, -24 * size), (5, base + 1, 100001), (2023, base, -3 * size - 1)]
        queries = []
        for k, (y, i, nn) in enumerate(cases):
            for j, p in enumerate(paths):
                y2, i2 = p.calls[0][1]
                queries.append(("val/%d/%d" % (k, j), ["(= %s %d)" % (year.s, y), "(= %s %d)" % (pos.s, i), "(= %s %s)" % (n.s, solve.lit(nn))] + [c.s for c in p.pc] + ["(= vy %s)" % y2.s, "(= vi %s)" % i2.s], "true", ["vy", "vi"]))
        decls = dict(ctx.inputs)
        decls["vy"] = ("Int", None, None)
        decls["vi"] = ("Int", None, None)
        final, _, _ = solve.decide(decls, queries)
        for k, (y, i, nn) in enumerate(cases):
            got = None
            for j in range(len(paths)):
                r = final.get("val/%d/%d" % (k, j))
                if r and r["verdict"] == "cex":
                    got = "%s %s" % (r["model"]["vy"], r["model"]["vi"])
            nat = eng.native(kind + "_next", y, i, nn)
            if got is None or (nat != "PANIC" and got != nat):
                return False, "%s: encoding %s native %s" % ((y, i, nn), got, nat), k
        return True, "agree on %d inputs" % len(cases), len(cases)

    return run_kernel(eng, "11.b/B/%s" % kind, "11.b", "year 1..9999, every index, |n| <= 10^6", build, validate, replay)
