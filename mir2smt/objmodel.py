"""Engine B, part 4: an axiomatised object model for the cycle types, so that functions which do index arithmetic and
then build pillars *by name* (format! + from_name) can be executed symbolically from their MIR.

Every axiom below is a fact about repository code that is discharged by another obligation of this framework
(named in AXIOMS); the evidence of each kernel lists the axioms it used."""
import re, os
from .mir import T, I, Rec, Ref, Tup, Opaque, Bytes, IFloat, HalfFloat, Unsupported, cmp, arith, app, SymOption, VecV, IterV, Variant

SIZES = {"Animal": 28, "Beast": 4, "Constellation": 12, "Direction": 9, "Duty": 12, "Element": 5, "God": 151, "Land": 9, "Luck": 2, "Phase": 30, "Sixty": 3,
         "Sound": 30, "Taboo": 141, "Ten": 6, "Terrain": 12, "Twenty": 9, "Week": 7, "Zodiac": 12, "Zone": 4, "Dog": 3, "Nine": 9, "PlumRain": 2, "Phenology": 72,
         "ThreePhenology": 3, "PengZuHeavenStem": 10, "PengZuEarthBranch": 12, "MinorRen": 6, "FetusHeavenStem": 5, "FetusEarthBranch": 6, "FetusMonth": 12,
         "Dipper": 9, "NineStar": 9, "TenStar": 10, "TwentyEightStar": 28, "SixStar": 6, "Ecliptic": 2, "TwelveStar": 12, "SevenStar": 7, "HeavenStem": 10,
         "EarthBranch": 12, "SixtyCycle": 60, "LunarSeason": 12}

AXIOMS = {
    "A-index": "K::from_index(x) has index x mod N_K, K::next(n) has index (index + n) mod N_K, get_size = N_K  [obligation 11.d per type + 11.a engine B]",
    "A-pillar": "SixtyCycle::get_heaven_stem has index (pillar index mod 10), get_earth_branch (mod 12)  [obligation 19.h/decompose]",
    "A-name": "SixtyCycle::from_name(stem name ++ branch name) is the pillar k with k mod 10 = stem, k mod 12 = branch; it panics when the parities differ  [lemma T60 + trusted first-match search of LoopTyme::new]",
    "A-format": "format!(\"{}{}\", a, b) is the concatenation of the two names (template bytes decoded from the MIR constant)  [semantics of core::fmt, trusted]",
    "A-jd": "JulianDay::next(n) on an integral day count adds n exactly; get_day returns it  [obligation 01.g/next-exact]",
}


class Obj:
    def __init__(self, kind, idx):
        self.kind, self.idx = kind, idx


class Name:
    def __init__(self, kind, idx):
        self.kind, self.idx = kind, idx


class Disp:
    def __init__(self, v):
        self.v = v


class FmtArgs:
    def __init__(self, template, args):
        self.template, self.args = template, args


class Str:
    def __init__(self, parts):
        self.parts = parts      # list of Name | bytes


class JD:
    def __init__(self, t):
        self.t = t              # Int term: the (integral) day count


def smod(t, n):
    if t.c is not None:
        return I(t.c % n)
    return app("mod", t, I(n))


def name_tables():
    """stem / branch characters from the current source (to decode literal pieces like "寅")"""
    s = open(os.path.join(os.environ.get("VERIF_REPO", "/repo"), "src/tyme/sixtycycle.rs"), encoding="utf-8").read()
    out = {}
    for key in ("HEAVEN_STEM_NAMES", "EARTH_BRANCH_NAMES"):
        m = re.search(r"pub static %s: \[&str; \d+\] = \[(.*?)\];" % key, s)
        out[key] = re.findall(r'"([^"]*)"', m.group(1)) if m else []
    return out


class Model:
    def __init__(self):
        self.used = set()
        self.tables = name_tables()
        self.fresh = 0

    def deref(self, ctx, v):
        for _ in range(4):
            if isinstance(v, Ref):
                v = ctx.read_place(v.frame, v.local, v.proj)
            elif isinstance(v, tuple) and v and v[0] == "refrec":
                v = v[1]
            else:
                break
        return v

    def call(self, ctx, fr, callee, args, path):
        a = [self.deref(ctx, x) for x in args]
        mq = re.match(r"^(?:[a-z_][a-z0-9_]*::)+([A-Z]\w*::\w+)$", callee)
        if mq and mq.group(1).split("::")[0] in SIZES:
            callee = mq.group(1)      # `culture::Element::from_index` names the same function as `Element::from_index` (cycle types only)
        m = re.match(r"^(?:<(\w+) as (?:Tyme|Culture|Clone)>|(\w+))::(\w+)$", callee)
        if m:
            kind = m.group(1) or m.group(2)
            meth = m.group(3)
            if kind in SIZES:
                n = SIZES[kind]
                if meth == "from_index" and len(a) == 1 and isinstance(a[0], T):
                    self.used.add("A-index")
                    return True, Obj(kind, smod(a[0], n))
                if a and isinstance(a[0], Obj) and a[0].kind == kind:
                    o = a[0]
                    if meth == "get_index":
                        return True, o.idx
                    if meth == "get_size":
                        self.used.add("A-index")
                        return True, I(n)
                    if meth == "next" and len(a) == 2 and isinstance(a[1], T):
                        self.used.add("A-index")
                        return True, Obj(kind, smod(arith("+", o.idx, a[1]), n))
                    if meth == "get_name":
                        return True, Name(kind, o.idx)
                    if meth == "clone":
                        return True, o
                    if kind == "SixtyCycle" and meth == "get_heaven_stem":
                        self.used.add("A-pillar")
                        return True, Obj("HeavenStem", smod(o.idx, 10))
                    if kind == "SixtyCycle" and meth == "get_earth_branch":
                        self.used.add("A-pillar")
                        return True, Obj("EarthBranch", smod(o.idx, 12))
                if kind == "SixtyCycle" and meth == "from_name" and len(a) == 1 and isinstance(a[0], Str):
                    return True, self.from_name(ctx, a[0], path)
            if kind == "JulianDay" and a and isinstance(a[0], JD):
                if meth == "next" and isinstance(a[1], T):
                    self.used.add("A-jd")
                    return True, JD(arith("+", a[0].t, a[1]))
                if meth == "get_day":
                    self.used.add("A-jd")
                    return True, IFloat(a[0].t)
        if re.match(r"^f64::<impl f64>::floor$", callee) and a and isinstance(a[0], HalfFloat):
            return True, IFloat(T("(div %s %d)" % (a[0].t.s, a[0].c), "Int"))      # floor of t/c: SMT div floors for c > 0
        if re.match(r"^f64::<impl f64>::ceil$", callee) and a and isinstance(a[0], HalfFloat):
            return True, IFloat(T("(- (div (- %s) %d))" % (a[0].t.s, a[0].c), "Int"))   # ceil(t/c) = -floor(-t/c)
        if re.match(r"^f64::<impl f64>::ceil$", callee) and a and isinstance(a[0], IFloat):
            return True, a[0]
        if re.match(r"^f64::<impl f64>::floor$", callee) and a and isinstance(a[0], IFloat):
            return True, a[0]
        if re.match(r"^core::num::<impl \w+>::abs$", callee) and isinstance(a[0], T):
            x = a[0]
            return True, T("(ite (< %s 0) (- %s) %s)" % (x.s, x.s, x.s), "Int")
        # ---- local vectors and integer ranges (for `for i in a..b` / push loops)
        if callee.startswith("Vec::<") and callee.endswith("::new"):
            return True, VecV([])
        if callee.startswith("Vec::<") and callee.endswith("::push"):
            ref = args[0]
            if isinstance(ref, Ref) and not ref.proj and isinstance(ref.frame["vals"].get(ref.local), VecV):
                nv = VecV(ref.frame["vals"][ref.local].items + [a[1]])
                ref.frame["vals"][ref.local] = nv
                if fr["fn"] is ref.frame["fn"]:
                    fr["vals"][ref.local] = nv
                return True, Opaque("unit")
            raise Unsupported("Vec::push on something that is not a modelled local vector")
        if re.match(r"^<Vec<.*> as IntoIterator>::into_iter$", callee) and isinstance(a[0], VecV):
            return True, IterV(list(a[0].items))
        if re.match(r"^<\[.*; \d+\] as IntoIterator>::into_iter$", callee) and isinstance(a[0], Tup):
            return True, IterV(list(a[0].items))          # `for x in [a, b]`: a fixed-size array walked by value
        if re.match(r"^<(std::|core::)?(vec|array)::IntoIter<.*> as Iterator>::next$", callee):
            ref = args[0]
            it = a[0]
            if isinstance(ref, Ref) and not ref.proj and isinstance(it, IterV):
                if not it.items:
                    return True, Variant("None", None)
                nv = IterV(it.items[1:])
                ref.frame["vals"][ref.local] = nv
                if fr["fn"] is ref.frame["fn"]:
                    fr["vals"][ref.local] = nv
                return True, Variant("Some", it.items[0])
            raise Unsupported("vec::IntoIter::next on something that is not a modelled iterator")
        if re.match(r"^<(std::ops::)?Range<\w+> as Iterator>::step_by$", callee) and isinstance(a[0], Rec) and getattr(a[0], "named", None) and isinstance(a[1], T) and a[1].c:
            r = Rec(ctx, a[0].name + "/step", None)
            r.named = dict(a[0].named, step=a[1])
            return True, r
        if re.match(r"^<StepBy<(std::ops::)?Range<\w+>> as IntoIterator>::into_iter$", callee) and isinstance(a[0], Rec) and getattr(a[0], "named", None):
            return True, a[0]
        if re.match(r"^<(std::ops::)?Range<\w+> as IntoIterator>::into_iter$", callee) and isinstance(a[0], Rec) and getattr(a[0], "named", None):
            return True, a[0]
        if re.match(r"^<(StepBy<)?(std::ops::)?Range<\w+>>? as Iterator>::next$", callee):
            ref = args[0]
            rng = a[0]
            if isinstance(ref, Ref) and not ref.proj and isinstance(rng, Rec) and getattr(rng, "named", None) and set(rng.named) - {"step"} == {"start", "end"}:
                st, en = rng.named["start"], rng.named["end"]
                step = rng.named["step"].c if "step" in rng.named else 1
                adv = Rec(ctx, rng.name + "'", getattr(rng, "ty", None))
                # on None the range is left as it is (start >= end); on Some(start) it advances — one record serves both: start' = start + (1 if start < end)
                cond = cmp("<", st, en)
                if cond.c is True:
                    nst = arith("+", st, I(step))
                elif cond.c is False:
                    nst = st
                else:
                    nst = ctx.fresh_value("range_cursor", "isize")
                    path.pc.append(T("(= %s (ite %s (+ %s %d) %s))" % (nst.s, cond.s, st.s, step, st.s), "Bool"))
                adv.named = dict(rng.named, start=nst)
                ref.frame["vals"][ref.local] = adv
                if fr["fn"] is ref.frame["fn"]:
                    fr["vals"][ref.local] = adv
                return True, SymOption(cond, st)
            raise Unsupported("Range::next on something that is not a modelled local range")
        if callee.startswith("core::fmt::rt::Argument") and "new_display" in callee:
            return True, Disp(a[0])
        if re.match(r"^Arguments::<'_>::new::<\d+, \d+>$", callee) or callee.startswith("core::fmt::Arguments::<'_>::new"):
            tmpl = a[0]
            arr = a[1]
            if not isinstance(tmpl, Bytes) or not isinstance(arr, Tup):
                raise Unsupported("format template not understood: %s" % callee)
            self.used.add("A-format")
            return True, FmtArgs(tmpl.b, arr.items)
        if callee in ("format", "alloc::fmt::format", "std::fmt::format") and isinstance(a[0], FmtArgs):
            return True, self.render(a[0])
        if callee.startswith("must_use::<") and isinstance(a[0], Opaque):
            return True, a[0]
        if callee.startswith("must_use::<") or callee in ("String::as_str", "<String as Deref>::deref", "<String as AsRef<str>>::as_ref"):
            return True, a[0]
        return False, None

    def render(self, f):
        parts = []
        b = f.template
        k = 0
        nxt = 0
        while k < len(b):
            c = b[k]
            if c == 0:
                break
            if c == 0xC0:
                d = f.args[nxt]
                nxt += 1
                if not isinstance(d, Disp) or not isinstance(d.v, Name):
                    return Opaque("string")      # an error message or other text nobody decodes
                parts.append(d.v)
                k += 1
            elif c < 0x80:
                parts.append(bytes(b[k + 1:k + 1 + c]))
                k += 1 + c
            else:
                raise Unsupported("format template byte 0x%02x" % c)
        return Str(parts)

    def literal_index(self, table, lit):
        try:
            return self.tables[table].index(lit.decode("utf-8"))
        except Exception:
            raise Unsupported("literal %r is not in %s" % (lit, table))

    def from_name(self, ctx, s, path):
        if len(s.parts) != 2:
            raise Unsupported("from_name of %d parts" % len(s.parts))
        st, br = s.parts
        if isinstance(st, Name) and st.kind == "HeavenStem":
            si = st.idx
        elif isinstance(st, (bytes, bytearray)):
            si = I(self.literal_index("HEAVEN_STEM_NAMES", st))
        else:
            raise Unsupported("first part of a pillar name is not a stem")
        if isinstance(br, Name) and br.kind == "EarthBranch":
            bi = br.idx
        elif isinstance(br, (bytes, bytearray)):
            bi = I(self.literal_index("EARTH_BRANCH_NAMES", br))
        else:
            raise Unsupported("second part of a pillar name is not a branch")
        self.used.add("A-name")
        # the real lookup panics on an illegal pillar: proof obligation "stem and branch have the same parity"
        legal = cmp("=", smod(si, 2), smod(bi, 2))
        if legal.c is not True:
            path.obligations.append((list(path.pc), legal, "SixtyCycle::from_name of an illegal pillar (stem/branch polarity differs)"))
            path.pc.append(legal)
        self.fresh += 1
        k = ctx.fresh_value("pillar%d" % self.fresh, "usize")
        path.pc.append(T("(and (<= 0 %s 59) (= (mod %s 10) %s) (= (mod %s 12) %s))" % (k.s, k.s, si.s, k.s, bi.s), "Bool"))
        return Obj("SixtyCycle", k)
