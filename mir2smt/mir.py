"""Engine B, part 1: parse the nightly compiler's MIR text (-Zunpretty=mir) and execute loop-free integer functions
symbolically into SMT-LIB terms over mathematical integers.

Soundness notes
 * machine integers are NOT replaced by unbounded ones silently: every Add/Sub/MulWithOverflow produces the exact
   mathematical value plus the compiler's own `assert(!overflow)` as a proof obligation, so the absence of wrap-around
   is proved; after a discharged assert the value is known to be in range.
 * Div / Rem are Rust's truncating operators (tdiv / trem defined in the prelude).
 * anything not understood raises Unsupported with the offending MIR text quoted: the obligation becomes inconclusive.
"""
import re, os, subprocess

INT_TYPES = {
    "isize": (-(1 << 63), (1 << 63) - 1), "i64": (-(1 << 63), (1 << 63) - 1), "usize": (0, (1 << 64) - 1), "u64": (0, (1 << 64) - 1),
    "i32": (-(1 << 31), (1 << 31) - 1), "u32": (0, (1 << 32) - 1), "u8": (0, 255), "i8": (-128, 127), "u16": (0, 65535), "i16": (-32768, 32767),
}


class Unsupported(Exception):
    pass


# ---------------------------------------------------------------------------------------------- terms
class T:
    """SMT term with sort 'Int' or 'Bool' and an optional Python constant value"""
    __slots__ = ("s", "sort", "c")

    def __init__(self, s, sort, c=None):
        self.s, self.sort, self.c = s, sort, c

    def __repr__(self):
        return self.s


def I(n):
    n = int(n)
    return T(str(n) if n >= 0 else "(- %d)" % -n, "Int", n)


def B(b):
    return T("true" if b else "false", "Bool", bool(b))


def app(op, *a, sort="Int"):
    return T("(%s %s)" % (op, " ".join(x.s for x in a)), sort)


def t_not(a):
    if a.c is not None:
        return B(not a.c)
    if a.s.startswith("(not ") and a.s.endswith(")") and _balanced(a.s[5:-1]):
        return T(a.s[5:-1], "Bool")
    return app("not", a, sort="Bool")


def _balanced(x):
    d = 0
    for ch in x:
        if ch == "(":
            d += 1
        elif ch == ")":
            d -= 1
            if d < 0:
                return False
    return d == 0


def t_and(a, b):
    if a.c is False or b.c is False:
        return B(False)
    if a.c is True:
        return b
    if b.c is True:
        return a
    return app("and", a, b, sort="Bool")


def t_or(a, b):
    if a.c is True or b.c is True:
        return B(True)
    if a.c is False:
        return b
    if b.c is False:
        return a
    return app("or", a, b, sort="Bool")


def tdiv_py(a, b):
    q = abs(a) // abs(b)
    return q if (a >= 0) == (b > 0) else -q


def arith(op, a, b):
    if a.c is not None and b.c is not None:
        if op == "+":
            return I(a.c + b.c)
        if op == "-":
            return I(a.c - b.c)
        if op == "*":
            return I(a.c * b.c)
        if op == "tdiv":
            return I(tdiv_py(a.c, b.c))
        if op == "trem":
            return I(a.c - b.c * tdiv_py(a.c, b.c))
    return app(op, a, b)


def cmp(op, a, b):
    if a.c is not None and b.c is not None:
        return B({"=": a.c == b.c, "<": a.c < b.c, "<=": a.c <= b.c, ">": a.c > b.c, ">=": a.c >= b.c}[op])
    return app(op, a, b, sort="Bool")


# ---------------------------------------------------------------------------------------------- values
class Tup:
    def __init__(self, items):
        self.items = items


class Rec:
    """symbolic record (struct value of unknown content): fields are created on demand as fresh inputs"""

    def __init__(self, ctx, name, ty=None):
        self.ctx, self.name, self.ty, self.fields = ctx, name, ty, {}

    def field(self, k, ty):
        if k not in self.fields:
            self.fields[k] = self.ctx.fresh_value("%s.%s" % (self.name, k), ty)
        return self.fields[k]


class Ref:
    def __init__(self, frame, local, proj):
        self.frame, self.local, self.proj = frame, local, proj


class Opaque:
    def __init__(self, name):
        self.name = name


class Bytes:
    def __init__(self, b):
        self.b = b


class Variant:
    def __init__(self, name, value):
        self.name, self.value = name, value


class SymOption:
    """Option whose variant is decided by a Bool term: Some(value) iff cond"""
    def __init__(self, cond, value):
        self.cond, self.value = cond, value


class DiscT(T):
    """discriminant of a SymOption: 1 iff cond (switchInt forks on cond instead of comparing integers)"""
    __slots__ = ("cond",)


class VecV:
    """a local Vec filled by push: the list of pushed values (immutable; push replaces the local)"""
    def __init__(self, items):
        self.items = items


class IterV:
    """by-value iterator over a modelled vector: remaining items (immutable; next replaces the local)"""
    def __init__(self, items):
        self.items = items


class HalfFloat:
    """(integral value) / c for a small positive integer constant c: only floor() / ceil() of it are interpreted.  The f64 quotient of two
    integers below 2^53 rounds to the nearest double of the true quotient, which can only reach an integer when the true quotient is one
    (|t| < 2^31, c < 2^20 here), so floor and ceil are those of the exact rational."""
    def __init__(self, t, c=2):
        self.t, self.c = t, c


class IFloat:
    """an f64 known to hold an integral value (day counts): carried as an Int term"""
    def __init__(self, t):
        self.t = t


def decode_bytes(txt):
    out = bytearray()
    k = 0
    while k < len(txt):
        if txt[k] == "\\":
            if txt[k + 1] == "x":
                out.append(int(txt[k + 2:k + 4], 16))
                k += 4
            else:
                out.append({"n": 10, "t": 9, "r": 13, "0": 0, "\\": 92, '"': 34, "'": 39}[txt[k + 1]])
                k += 2
        else:
            out += txt[k].encode()
            k += 1
    return bytes(out)


# ---------------------------------------------------------------------------------------------- MIR text
class Fn:
    def __init__(self, name, header, args, ret, locals_, blocks, src):
        self.name, self.header, self.args, self.ret, self.locals, self.blocks, self.src = name, header, args, ret, locals_, blocks, src


def dump_mir(repo, target_dir):
    """MIR of the crate's current working tree (nightly), nothing is written under the repository"""
    env = dict(os.environ)
    env["CARGO_TARGET_DIR"] = target_dir
    env["CARGO_NET_OFFLINE"] = "true"
    env.pop("RUSTFLAGS", None)
    subprocess.run(["touch", os.path.join(repo, "src", "lib.rs")])
    p = subprocess.run(["cargo", "+nightly", "rustc", "--offline", "--lib", "--", "-Zunpretty=mir", "-C", "debug-assertions=off",
                        "-C", "overflow-checks=on"], cwd=repo, env=env, stdout=subprocess.PIPE, stderr=subprocess.PIPE, text=True)
    if p.returncode != 0 or "fn " not in p.stdout:
        raise Unsupported("MIR dump failed: " + p.stderr[-500:])
    return p.stdout


def split_top(s, sep=","):
    out, depth, cur = [], 0, ""
    for ch in s:
        if ch in "([{<":
            depth += 1
        elif ch in ")]}>":
            depth -= 1
        if ch == sep and depth == 0:
            out.append(cur.strip())
            cur = ""
        else:
            cur += ch
    if cur.strip():
        out.append(cur.strip())
    return out


PROMOTED = {}


def parse_promoted(text):
    """`const <fn path>::promoted[k]: &T = { ... _1 = VALUE; _0 = &_1; ... }` -> {(fn path, k): VALUE text}"""
    PROMOTED.clear()
    for m in re.finditer(r"^const ([^\n]*)::promoted\[(\d+)\]: [^\n]* = \{\n(.*?)^\}", text, re.S | re.M):
        body = m.group(3)
        mm = re.search(r"^\s+_1 = (.*);$", body, re.M)
        if mm:
            PROMOTED[(m.group(1), int(m.group(2)))] = mm.group(1).strip()


def parse_functions(text):
    parse_promoted(text)
    fns = {}
    lines = text.splitlines()
    k = 0
    while k < len(lines):
        ln = lines[k]
        if ln.startswith("fn ") and ln.rstrip().endswith("{"):
            start = k
            k += 1
            while k < len(lines) and lines[k] != "}":
                k += 1
            body = lines[start:k + 1]
            f = parse_fn(body)
            if f:
                fns.setdefault(f.name, []).append(f)
        k += 1
    return fns


RE_HDR = re.compile(r"^fn (.*?)\((.*)\) -> (.*) \{$")
RE_HDR2 = re.compile(r"^fn (.*?)\((.*)\) \{$")


def parse_fn(body):
    h = body[0]
    m = RE_HDR.match(h)
    if m:
        path, args, ret = m.group(1), m.group(2), m.group(3)
    else:
        m = RE_HDR2.match(h)
        if not m:
            return None
        path, args, ret = m.group(1), m.group(2), "()"
    a = []
    for part in split_top(args):
        if not part:
            continue
        n, ty = part.split(":", 1)
        a.append((int(n.strip()[1:]), ty.strip()))
    locals_ = {0: ret}
    for n, ty in a:
        locals_[n] = ty
    blocks = {}
    cur = None
    for ln in body[1:]:
        s = ln.strip()
        m = re.match(r"^let (mut )?_(\d+): (.*);$", s)
        if m:
            locals_[int(m.group(2))] = m.group(3)
            continue
        m = re.match(r"^bb(\d+)( \(cleanup\))?: \{$", s)
        if m:
            cur = int(m.group(1))
            blocks[cur] = []
            continue
        if s == "}":
            cur = None if cur is not None else cur
            continue
        if cur is not None and s:
            blocks[cur].append(s)
    # a display name: last path segments, with the impl's self type recovered from the first argument
    name = path
    return Fn(name, h, a, ret, locals_, blocks, body)


def find_fn(fns, method, self_ty=None, nargs=None):
    """find by trailing method name and type of the first argument (e.g. method='next', self_ty='&SolarTime')"""
    hits = []
    for name, fl in fns.items():
        for f in fl:
            if name.endswith("::" + method) or name == method:
                if self_ty is not None and (not f.args or f.args[0][1] != self_ty):
                    continue
                if nargs is not None and len(f.args) != nargs:
                    continue
                hits.append(f)
    if len(hits) != 1:
        raise Unsupported("function %s(%s) found %d times in the MIR dump" % (method, self_ty, len(hits)))
    return hits[0]


# ---------------------------------------------------------------------------------------------- places / operands
def parse_place(s):
    """returns (local, [proj...]) with proj = ('deref',) | ('field', k, ty)"""
    s = s.strip()
    if re.match(r"^_\d+$", s):
        return int(s[1:]), []
    m = re.match(r"^(.*)\[(_\d+)\]$", s)
    if m:
        l, p = parse_place(m.group(1))
        return l, p + [("index", int(m.group(2)[1:]))]
    m = re.match(r"^(.*)\[(\d+) of (\d+)\]$", s)
    if m:
        l, p = parse_place(m.group(1))
        return l, p + [("cindex", int(m.group(2)))]
    if s.startswith("(") and s.endswith(")"):
        inner = s[1:-1]
        m = re.match(r"^(.*) as (\w+)$", inner)
        if m and m.group(1).count("(") == m.group(1).count(")") and (m.group(1).startswith("(") or re.match(r"^_\d+$", m.group(1))):
            l, p = parse_place(m.group(1))
            return l, p + [("downcast", m.group(2))]
        if inner.startswith("*"):
            l, p = parse_place(inner[1:])
            return l, p + [("deref",)]
        # (PLACE.K: TYPE)
        depth = 0
        for idx, ch in enumerate(inner):
            if ch in "([{<":
                depth += 1
            elif ch in ")]}>":
                depth -= 1
            elif ch == ":" and depth == 0 and inner[idx + 1] == " ":
                left, ty = inner[:idx], inner[idx + 2:]
                j = left.rfind(".")
                base, k = left[:j], left[j + 1:]
                l, p = parse_place(base)
                return l, p + [("field", int(k), ty)]
    raise Unsupported("place: " + s)


class Path:
    def __init__(self):
        self.pc = []            # list of T (Bool)
        self.obligations = []   # (list pc-so-far, T cond, msg)
        self.calls = []         # (callee, [values], dest value)
        self.ret = None
        self.trace = []

    def clone(self):
        p = Path()
        p.pc, p.obligations, p.calls, p.trace = list(self.pc), list(self.obligations), list(self.calls), list(self.trace)
        return p


class Ctx:
    """one symbolic execution of one entry function"""

    def __init__(self, fns, inline=(), max_paths=4096):
        self.fns = fns
        self.inline = set(inline)
        self.inputs = {}       # name -> (sort, lo, hi)
        self.counter = 0
        self.max_paths = max_paths
        self.functions_seen = set()
        self.model = None
        self.max_unroll = 0
        self.prune = None
        self.pruned = 0
        self.auto_inline = False

    def fresh_value(self, name, ty):
        ty = ty.strip()
        if ty in INT_TYPES:
            lo, hi = INT_TYPES[ty]
            nm = self.sym(name)
            self.inputs[nm] = ("Int", lo, hi)
            return T(nm, "Int")
        if ty == "bool":
            nm = self.sym(name)
            self.inputs[nm] = ("Bool", None, None)
            return T(nm, "Bool")
        if ty in ("f64", "f32"):
            return Opaque("float")
        if ty.startswith("&"):
            # reference to an unknown record
            r = Rec(self, name + "*", ty.lstrip("&").replace("mut ", "").strip())
            return ("refrec", r)
        return Rec(self, name, ty)

    def sym(self, name):
        nm = "|" + name.replace("|", "_") + "|"
        if nm in self.inputs:
            self.counter += 1
            nm = "|" + name.replace("|", "_") + "#%d|" % self.counter
        return nm

    # ---- execution
    def run(self, fn, args):
        """args: list of values for the function's parameters; returns list of finished Paths"""
        self.done = []
        self.functions_seen.add(fn.header)
        p = Path()
        frame = self.new_frame(fn, args)
        self.exec_block(fn, frame, 0, p, cont=None)
        return self.done

    def new_frame(self, fn, args):
        fr = {"fn": fn, "vals": {}}
        for (n, ty), v in zip(fn.args, args):
            fr["vals"][n] = v
        return fr

    def exec_block(self, fn, fr, bb, p, cont):
        # iterative over straight-line terminators, recursive on branches
        while True:
            stmts = fn.blocks.get(bb)
            if stmts is None:
                raise Unsupported("missing block bb%d in %s" % (bb, fn.name))
            for s in stmts[:-1]:
                self.exec_stmt(fn, fr, s, p)
            term = stmts[-1]
            tag = "%s:bb%d" % (fn.name.split("::")[-1], bb)
            p.trace.append(tag)
            if self.prune is not None and p.trace.count(tag) > getattr(p, "prune_level", 1):
                # a block is entered again (loop back-edge): ask whether the path is still feasible; an infeasible path is dropped —
                # it contributes no behaviour (sound only because the callback answers False on a solver's `unsat`, never on doubt)
                p.prune_level = p.trace.count(tag)
                if not self.prune(p):
                    self.pruned += 1
                    return
            if self.max_unroll and p.trace.count(tag) > self.max_unroll:
                # unwinding assertion: this path must be infeasible, otherwise the bound is too small
                p.obligations.append((list(p.pc), B(False), "unwinding bound %d exceeded at %s" % (self.max_unroll, tag)))
                p.ret = Opaque("unwound")
                p.cut = True
                self.done.append(p)
                return
            if len(p.trace) > 600:
                raise Unsupported("path too long (loop?) in " + fn.name)
            if term == "return;":
                ret = fr["vals"].get(0)
                if cont is None:
                    p.ret = ret
                    self.done.append(p)
                    if len(self.done) > self.max_paths:
                        raise Unsupported("too many paths")
                else:
                    cont(ret, p)
                return
            m = re.match(r"^goto -> bb(\d+);$", term)
            if m:
                bb = int(m.group(1))
                continue
            m = re.match(r"^drop\(.*\) -> \[return: bb(\d+), unwind.*\];$", term)
            if m:
                bb = int(m.group(1))
                continue
            m = re.match(r"^switchInt\((.*)\) -> \[(.*)\];$", term)
            if m:
                v = self.operand(fr, m.group(1))
                arms = [a.strip() for a in m.group(2).split(",")]
                targets = []
                other = None
                for a in arms:
                    k, t = a.split(":")
                    t = int(t.strip()[2:])
                    if k.strip() == "otherwise":
                        other = t
                    else:
                        targets.append((int(k.strip()), t))
                if not isinstance(v, T):
                    raise Unsupported("switchInt on non-scalar: " + term)
                taken_any = False
                neg = []
                known = {x.s for x in p.pc}
                for k, t in targets:
                    if isinstance(v, DiscT) and k in (0, 1):
                        c = v.cond if k == 1 else t_not(v.cond)
                    elif v.sort == "Bool":
                        c = t_not(v) if k == 0 else v
                    else:
                        c = cmp("=", v, I(k))
                    # a condition this path has already decided (syntactically the same term) is not forked on again
                    if c.c is None and c.s in known:
                        c = B(True)
                    elif c.c is None and t_not(c).s in known:
                        c = B(False)
                    neg.append(t_not(c))
                    if c.c is False:
                        continue
                    q = p.clone() if (other is not None or len(targets) > 1) else p
                    frc = {"fn": fr["fn"], "vals": dict(fr["vals"])}
                    if c.c is not True:
                        q.pc.append(c)
                    self.exec_block(fn, frc, t, q, cont)
                    if c.c is True:
                        return
                if other is not None and isinstance(v, DiscT) and {k for k, _ in targets} >= {0, 1}:
                    other = None
                if other is not None:
                    c = B(True)
                    for x in neg:
                        c = t_and(c, x)
                    if c.c is not False:
                        q = p.clone()
                        frc = {"fn": fr["fn"], "vals": dict(fr["vals"])}
                        if c.c is not True:
                            q.pc.append(c)
                        self.exec_block(fn, frc, other, q, cont)
                return
            m = re.match(r"^assert\((.*?), \"(.*?)\"(?:, .*)?\) -> \[success: bb(\d+), unwind.*\];$", term)
            if m:
                condtxt, msg, nxt = m.group(1), m.group(2), int(m.group(3))
                neg = condtxt.startswith("!")
                v = self.operand(fr, condtxt[1:] if neg else condtxt)
                c = t_not(v) if neg else v
                if c.c is False:
                    # certainly failing assert on this path: an obligation that cannot hold
                    p.obligations.append((list(p.pc), c, msg))
                    self.done.append(p)   # path ends in a panic
                    p.ret = Opaque("panic")
                    return
                if c.c is not True:
                    p.obligations.append((list(p.pc), c, msg))
                    p.pc.append(c)
                bb = nxt
                continue
            m = re.match(r"^(.*?) = (.*)\((.*)\) -> \[return: bb(\d+), unwind.*\];$", term)
            if m:
                dest, callee, argtxt, nxt = m.group(1), m.group(2).strip(), m.group(3), int(m.group(4))
                args = [self.operand(fr, a) for a in split_top(argtxt)] if argtxt.strip() else []
                target = self.resolve_inline(callee, args)
                mcl = re.match(r"^<\{closure@([^}]*)\} as Fn(?:Mut|Once)?<.*>>::call(?:_mut|_once)?$", callee)
                if target is None and mcl and len(args) == 2:
                    tag = "{closure@%s}" % mcl.group(1)
                    cands = [f for fl in self.fns.values() for f in fl if f.args and tag in f.args[0][1] and "{closure#" in f.name]
                    tup = args[1]
                    if isinstance(tup, Ref):
                        tup = self.read_place(tup.frame, tup.local, tup.proj)
                    if len(cands) == 1 and isinstance(tup, Tup) and len(tup.items) == len(cands[0].args) - 1:
                        target = cands[0]
                        args = [args[0]] + list(tup.items)
                if target is not None:
                    callee_fr = self.new_frame(target, args)
                    self.functions_seen.add(target.header)
                    outer = self

                    def k(ret, p2, dest=dest, fr=fr, nxt=nxt, fn=fn, cont=cont):
                        fr2 = {"fn": fr["fn"], "vals": dict(fr["vals"])}
                        outer.assign(fr2, dest, ret)
                        outer.exec_block(fn, fr2, nxt, p2, cont)
                    self.exec_block(target, callee_fr, 0, p, k)
                    return
                if self.model is not None:
                    handled, rv = self.model.call(self, fr, callee, args, p)
                    if handled:
                        p.calls.append((callee, args, rv))
                        self.assign(fr, dest, rv)
                        bb = nxt
                        continue
                # uninterpreted call: result is a fresh record / scalar
                self.counter += 1
                rty = self.dest_type(fr, dest)
                rv = self.fresh_value("ret%d:%s" % (self.counter, callee), rty)
                p.calls.append((callee, args, rv))
                self.assign(fr, dest, rv)
                bb = nxt
                continue
            m = re.match(r"^(.*?) = (.*)\((.*)\) -> unwind.*;$", term)
            if m:
                raise Unsupported("diverging call: " + term)
            raise Unsupported("terminator: " + term)

    def dest_type(self, fr, dest):
        l, proj = parse_place(dest)
        if proj:
            return proj[-1][2] if proj[-1][0] == "field" else "?"
        return fr["fn"].locals.get(l, "?")

    def resolve_inline(self, callee, args):
        """callee text like `SolarTime::get_hour` or `<SolarDay as Tyme>::next`"""
        if callee in self.inline:
            return self.inline_map[callee]
        if self.auto_inline:
            # helper functions of the repository that the kernel does not name: inline them when they resolve uniquely
            m = re.match(r"^(\w+)::(\w+)$", callee)
            if m:
                ty, meth = m.group(1), m.group(2)
                hits = []
                for name, fl in self.fns.items():
                    for f in fl:
                        if name.endswith("::" + meth) and f.args and f.args[0][1] in ("&" + ty, ty):
                            hits.append(f)
                if len(hits) == 1:
                    return hits[0]
        return None

    inline_map = {}

    # ---- statements
    def exec_stmt(self, fn, fr, s, p):
        if s.startswith("StorageLive") or s.startswith("StorageDead") or s.startswith("nop") or s.startswith("FakeRead") or s.startswith("PlaceMention") or s.startswith("//") or s.startswith("AscribeUserType") or s.startswith("Coverage"):
            return
        m = re.match(r"^(.*?) = (.*);$", s)
        if not m:
            raise Unsupported("statement: " + s)
        dest, rv = m.group(1), m.group(2)
        self.assign(fr, dest, self.rvalue(fr, rv))

    def assign(self, fr, dest, val):
        l, proj = parse_place(dest)
        if not proj:
            fr["vals"][l] = val
            return
        if len(proj) == 1 and proj[0][0] == "field":
            cur = fr["vals"].get(l)
            if isinstance(cur, Tup):
                items = list(cur.items)
            else:
                items = [None, None]
            while len(items) <= proj[0][1]:
                items.append(None)
            items[proj[0][1]] = val
            fr["vals"][l] = Tup(items)
            return
        raise Unsupported("assignment to projected place: " + dest)

    def read_place(self, fr, l, proj):
        if l not in fr["vals"]:
            if str(fr["fn"].locals.get(l, "")).lstrip("&").startswith("{closure@"):
                fr["vals"][l] = Opaque("closure")      # a closure that captures nothing is a zero-sized value nobody assigns
            else:
                raise Unsupported("read of unassigned local _%d in %s" % (l, fr["fn"].name))
        v = fr["vals"][l]
        for pr in proj:
            if pr[0] == "downcast":
                if isinstance(v, SymOption) and pr[1] == "Some":
                    v = Tup([v.value])
                    continue
                if not isinstance(v, Variant) or v.name != pr[1]:
                    raise Unsupported("downcast of a value that is not a known %s variant" % pr[1])
                v = Tup([v.value])
                continue
            if pr[0] == "index" or pr[0] == "cindex":
                if not isinstance(v, Tup):
                    raise Unsupported("index into a non-array")
                if pr[0] == "cindex":
                    v = v.items[pr[1]]
                    continue
                iv = fr["vals"].get(pr[1])
                if not isinstance(iv, T):
                    raise Unsupported("array index is not a scalar")
                if iv.c is not None:
                    v = v.items[iv.c]
                    continue
                items = v.items
                if not all(isinstance(x, T) for x in items):
                    raise Unsupported("symbolic index into an array of non-scalars")
                acc = items[-1].s
                for k in range(len(items) - 2, -1, -1):
                    acc = "(ite (= %s %d) %s %s)" % (iv.s, k, items[k].s, acc)
                v = T(acc, items[0].sort)
                continue
            if pr[0] == "deref":
                if isinstance(v, Ref):
                    v = self.read_place(v.frame, v.local, v.proj)
                elif isinstance(v, tuple) and v[0] == "refrec":
                    v = v[1]
                elif isinstance(v, Opaque):
                    v = Opaque("deref:" + v.name)
                elif isinstance(v, Variant):
                    pass        # a modelled smart-pointer target (e.g. the content of a RefCell): already the value
                elif isinstance(v, (T, Rec, VecV)) or type(v).__name__ in ("Obj",):
                    pass        # a modelled value handed out "by reference" by a model (e.g. an element of a modelled slice): already the value
                else:
                    raise Unsupported("deref of non-reference")
            else:
                k, ty = pr[1], pr[2]
                if isinstance(v, Tup):
                    v = v.items[k]
                elif isinstance(v, Rec):
                    v = v.field(k, ty)
                else:
                    raise Unsupported("field %s of a %s value (local _%d in %s)" % (k, type(v).__name__, l, fr["fn"].name.split("::")[-1]))
        return v

    def operand(self, fr, s):
        s = s.strip()
        if s.startswith("no_retag "):
            s = s[9:].strip()
        if s.startswith("copy ") or s.startswith("move "):
            l, proj = parse_place(s[5:])
            return self.read_place(fr, l, proj)
        if s.startswith("const ") and s.endswith("}") and "{" in s and not s.startswith("const {"):
            return Opaque(s)
        m = re.match(r"^const \{alloc\d+: &\[[^;\]]+; (\d+)\]\}$", s)
        if m:
            # reference to a static array: only its length is interpreted
            return Tup([Opaque("static element")] * int(m.group(1)))
        if s.startswith("const "):
            c = s[6:].strip()
            if c == "true":
                return B(True)
            if c == "false":
                return B(False)
            m = re.match(r"^(-?\d+)_(\w+)$", c)
            if m:
                return I(int(m.group(1)))
            m = re.match(r"^(\w+)::(MIN|MAX)$", c)
            if m and m.group(1) in INT_TYPES:
                lo, hi = INT_TYPES[m.group(1)]
                return I(lo if m.group(2) == "MIN" else hi)
            if re.match(r"^-?[0-9][0-9.eE+-]*f(64|32)$", c) or c in ("f64::NAN", "f64::INFINITY"):
                try:
                    fv = float(c[:-3])
                    if fv == int(fv) and abs(fv) < 1e6:
                        return Opaque("float:%d" % int(fv))
                except Exception:
                    pass
                return Opaque("float")
            m = re.match(r'^b"(.*)"$', c)
            if m:
                return Bytes(decode_bytes(m.group(1)))
            m = re.match(r"^.*::promoted\[(\d+)\]$", c)
            if m:
                v = PROMOTED.get((fr["fn"].name, int(m.group(1))))
                if v is not None:
                    return Opaque("promoted:" + v)
            return Opaque(c)
        raise Unsupported("operand: " + s)

    BIN = {"Eq": "=", "Lt": "<", "Le": "<=", "Gt": ">", "Ge": ">="}

    def rvalue(self, fr, rv):
        rv = rv.strip()
        m = re.match(r"^(\w+)\((.*)\)$", rv)
        if m and m.group(1) in ("Eq", "Ne", "Lt", "Le", "Gt", "Ge", "BitAnd", "BitOr", "Add", "Sub", "Mul", "Div", "Rem",
                                "AddWithOverflow", "SubWithOverflow", "MulWithOverflow", "Not", "Neg", "AddUnchecked", "SubUnchecked"):
            op = m.group(1)
            ops = [self.operand(fr, a) for a in split_top(m.group(2))]
            def _fc(o):
                if isinstance(o, Opaque) and o.name.startswith("float:"):
                    return int(o.name[6:])
                return None
            if len(ops) == 2 and isinstance(ops[0], IFloat):
                c = _fc(ops[1])
                if op == "Div" and c is not None and c > 0:
                    return HalfFloat(ops[0].t, c)
                if op in ("Add", "Sub") and c is not None:
                    return IFloat(arith("+" if op == "Add" else "-", ops[0].t, I(c)))
                if op in ("Add", "Sub") and isinstance(ops[1], IFloat):
                    return IFloat(arith("+" if op == "Add" else "-", ops[0].t, ops[1].t))
                if op == "Mul" and c is not None:
                    return IFloat(arith("*", ops[0].t, I(c)))
            if any(not isinstance(o, T) for o in ops):
                if all(isinstance(o, (T, Opaque, IFloat)) for o in ops) and any(isinstance(o, (Opaque, IFloat)) for o in ops):
                    if op in ("Eq", "Ne", "Lt", "Le", "Gt", "Ge"):
                        # comparison of floating-point values we do not model: an arbitrary outcome (environment)
                        return self.fresh_value("float_cmp", "bool")
                    return Opaque("float")
                raise Unsupported("non-scalar operand in " + rv)
            if op == "Not":
                if ops[0].sort != "Bool":
                    raise Unsupported("bitwise Not on integer: " + rv)
                return t_not(ops[0])
            if op == "Neg":
                return arith("-", I(0), ops[0])
            a, b = ops
            if op in self.BIN:
                return cmp(self.BIN[op], a, b)
            if op == "Ne":
                return t_not(cmp("=", a, b))
            if op in ("BitAnd", "BitOr"):
                if a.sort != "Bool":
                    raise Unsupported("bitwise op on integers: " + rv)
                return t_and(a, b) if op == "BitAnd" else t_or(a, b)
            if op in ("AddWithOverflow", "SubWithOverflow", "MulWithOverflow"):
                val = arith({"A": "+", "S": "-", "M": "*"}[op[0]], a, b)
                ty = self.ty_of_operand(fr, split_top(m.group(2))[0])
                lo, hi = INT_TYPES[ty]
                if val.c is not None:
                    ovf = B(not (lo <= val.c <= hi))
                else:
                    ovf = t_not(t_and(cmp("<=", I(lo), val), cmp("<=", val, I(hi))))
                return Tup([val, ovf])
            if op in ("Div", "Rem"):
                if op == "Div":
                    return arith("tdiv", a, b)
                return arith("trem", a, b)
            raise Unsupported("wrapping/unchecked arithmetic: " + rv)
        if rv.startswith("no_retag "):
            rv = rv[9:].strip()
        m = re.match(r"^discriminant\((.*)\)$", rv)
        if m:
            l, proj = parse_place(m.group(1))
            v = self.read_place(fr, l, proj)
            if isinstance(v, Variant):
                return I({"None": 0, "Some": 1, "Ok": 0, "Err": 1}.get(v.name, 0))
            if isinstance(v, SymOption):
                d = DiscT("(ite %s 1 0)" % v.cond.s, "Int")
                d.cond = v.cond
                return d
            raise Unsupported("discriminant of a value that is not a known variant")
        m = re.match(r"^PtrMetadata\((.*)\)$", rv)
        if m:
            v = self.operand(fr, m.group(1))
            if isinstance(v, Tup):
                return I(len(v.items))
            raise Unsupported("PtrMetadata of a non-array")
        m = re.match(r"^(.*) as &\[[^\]]*\] \(PointerCoercion\(Unsize, \w+\)\)$", rv)
        if m:
            return self.operand(fr, m.group(1))
        m = re.match(r"^Len\((.*)\)$", rv)
        if m:
            l, proj = parse_place(m.group(1))
            v = self.read_place(fr, l, proj)
            if isinstance(v, Tup):
                return I(len(v.items))
            raise Unsupported("Len of a non-array")
        m = re.match(r"^\[(.*); (\d+)\]$", rv)
        if m:
            return Tup([self.operand(fr, m.group(1))] * int(m.group(2)))
        if (rv.startswith("[") and rv.endswith("]")) or (rv.startswith("(") and rv.endswith(")") and ("," in rv) and not rv.startswith("((") and ": " not in rv.split(",")[0]):
            inner = rv[1:-1]
            return Tup([self.operand(fr, a) for a in split_top(inner)])
        m = re.match(r"^(.*) as (\w+) \(FloatToInt\)$", rv)
        if m:
            v = self.operand(fr, m.group(1))
            if isinstance(v, IFloat):
                return v.t
            if isinstance(v, Opaque):
                # value of a float expression we do not model: an arbitrary integer of the target type
                return self.fresh_value("float_to_int", m.group(2))
            raise Unsupported("float to int cast of a non-integral float: " + rv)
        m = re.match(r"^(.*) as (\w+) \(IntToFloat\)$", rv)
        if m:
            v = self.operand(fr, m.group(1))
            if isinstance(v, T):
                return IFloat(v)
            raise Unsupported("int to float cast: " + rv)
        m = re.match(r"^(.*) as (\w+) \(IntToInt\)$", rv)
        if m:
            v = self.operand(fr, m.group(1))
            if not isinstance(v, T):
                raise Unsupported("cast of non-scalar")
            to = m.group(2)
            frm = self.ty_of_operand(fr, m.group(1))
            return self.cast(v, frm, to)
        if rv.startswith("&"):
            body = rv[1:].strip()
            if body.startswith("mut "):
                body = body[4:]
            if body.startswith("raw "):
                raise Unsupported("raw pointer: " + rv)
            l, proj = parse_place(body)
            # re-borrow of a reference: &(*_x) == _x
            if proj and proj[-1] == ("deref",) and len(proj) == 1:
                return fr["vals"][l]
            return Ref(fr, l, proj)
        if rv.startswith("copy ") or rv.startswith("move ") or rv.startswith("const "):
            return self.operand(fr, rv)
        m = re.match(r"^(\w+)::<.*>::(\w+)\((.*)\)$", rv)
        if m and m.group(1) in ("Result", "Option"):
            return Variant(m.group(2), self.operand(fr, m.group(3)) if m.group(3).strip() else None)
        m = re.match(r"^(\w+)::<.*>::(None)$", rv)
        if m:
            return Variant("None", None)
        m = re.match(r"^([A-Za-z_][\w:<>]*) \{ (.*) \}$", rv)
        if m:
            # struct aggregate with named fields
            self.counter += 1
            r = Rec(self, "agg%d:%s" % (self.counter, m.group(1)), m.group(1))
            r.named = {}
            for part in split_top(m.group(2)):
                fname, val = part.split(":", 1)
                r.named[fname.strip()] = self.operand(fr, val.strip())
            return r
        m = re.match(r"^([A-Za-z_][\w:<>]*)( \{.*\})?$", rv)
        if m and not m.group(2):
            # unit-like aggregate (e.g. `AbstractCulture`): a record nobody reads
            self.counter += 1
            return Rec(self, "agg%d:%s" % (self.counter, m.group(1)))
        raise Unsupported("rvalue: " + rv)

    def ty_of_operand(self, fr, s):
        s = s.strip()
        if s.startswith("const "):
            m = re.match(r"^const -?\d+_(\w+)$", s)
            if m:
                return m.group(1)
            m = re.match(r"^const (\w+)::(MIN|MAX)$", s)
            if m:
                return m.group(1)
            raise Unsupported("type of " + s)
        l, proj = parse_place(s[5:])
        if proj and proj[-1][0] == "field":
            return proj[-1][2]
        ty = fr["fn"].locals.get(l)
        if ty is None:
            raise Unsupported("type of " + s)
        return ty

    def cast(self, v, frm, to):
        if frm not in INT_TYPES or to not in INT_TYPES:
            raise Unsupported("cast %s -> %s" % (frm, to))
        flo, fhi = INT_TYPES[frm]
        lo, hi = INT_TYPES[to]
        if flo >= lo and fhi <= hi:
            return v
        width = hi - lo + 1
        if v.c is not None:
            return I((v.c - lo) % width + lo)
        # same bit width, different signedness (usize <-> isize): one wrap at most
        if fhi - flo + 1 == width:
            if lo < 0:   # unsigned -> signed
                return T("(ite (> %s %d) (- %s %d) %s)" % (v.s, hi, v.s, width, v.s), "Int")
            return T("(ite (< %s 0) (+ %s %d) %s)" % (v.s, v.s, width, v.s), "Int")
        raise Unsupported("narrowing cast %s -> %s" % (frm, to))


PRELUDE = """(set-logic ALL)
(define-fun tdiv ((a Int) (b Int)) Int (ite (>= a 0) (ite (> b 0) (div a b) (- (div a (- b)))) (ite (> b 0) (- (div (- a) b)) (div (- a) (- b)))))
(define-fun trem ((a Int) (b Int)) Int (- a (* b (tdiv a b))))
"""
