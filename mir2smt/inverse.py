"""Engine B kernel for the inverse search EightChar::get_solar_times (C09's last clause): which candidate years and which hours of the
candidate day the search tries.  The verification of each tried instant (its eight characters are compared with the wanted ones) is an
arbitrary Bool here: the kernel decides what is TRIED, soundness of what is returned rests on that comparison (09.c/09.d)."""
import os
from . import mir as M
from .mir import T, I, Rec, Ref, Opaque, Unsupported, VecV, IterV, Variant
from .kernels import run_kernel, struct_fields, REPO
from .pillars import _ctx, _finish
from .objmodel import Obj


class _TermAt:
    def __init__(self, y, k):
        self.y, self.k = y, k        # year term (Int), index term (Int)


class _TermTime:
    def __init__(self, term):
        self.term = term


class _CandDay:
    def __init__(self, term, shift):
        self.term, self.shift = term, shift


class _Tag(T):
    __slots__ = ("of", "what")


def k_inverse_search(eng, span=57, dmode="zero"):
    """dmode: the candidate day is the term day itself ("zero": its pillar is the wanted day pillar) or a later day ("pos") — a case split
    that keeps the path count down; span: maximal end_year - start_year"""
    holder = {}

    def build(eng):
        fields = struct_fields(os.path.join(REPO, "src/tyme/eightchar/mod.rs"), "EightChar")
        fn = M.find_fn(eng.fns, "get_solar_times", "&EightChar", 3)
        ctx = _ctx(eng, {})
        ctx.max_unroll = 4 if span <= 57 else 12      # counts visits of a block over the whole path: 3 candidate years x (2 hours + exit)
        ctx.max_paths = 20000
        holder.update(ctx=ctx)
        rec = Rec(ctx, "self", "EightChar")
        P = {}
        for k, f in enumerate(fields):
            P[f] = ctx.fresh_value(f + "_pillar", "usize")
            rec.fields[k] = Obj("SixtyCycle", P[f])
        start, end = ctx.fresh_value("start_year", "isize"), ctx.fresh_value("end_year", "isize")
        model = ctx.model
        base = model.call
        tried = []        # (year term of the candidate, hour term)

        G = {}
        gaps = {}

        def term_year(term):
            # terms 3..23 of term-year y fall in civil year y, the later ones (index >= 24) in January of y + 1
            return "(ite (>= %s 24) (+ %s 1) %s)" % (term.k.s, term.y.s, term.y.s)

        def cand_year(term, shift):
            """civil year of the candidate day: the term day's year, or — for a later candidate — that year or the next (one symbol per candidate year)"""
            if dmode == "zero" or (shift.c == 0):
                return T(term_year(term), "Int")
            if term.y.s not in G:
                G[term.y.s] = ctx.fresh_value("civil_year_of_the_candidate_day", "isize")
            return G[term.y.s]

        def call(c, fr, callee, args, path):
            a = [model.deref(c, x) for x in args]
            if callee in ("<HeavenStem as PartialEq>::ne", "<HeavenStem as PartialEq>::eq") and isinstance(a[0], Obj) and isinstance(a[1], Obj):
                e = "(= %s %s)" % (a[0].idx.s, a[1].idx.s)
                return True, T(e if callee.endswith("eq") else "(not %s)" % e, "Bool")
            if callee == "SolarTerm::from_index" and isinstance(a[0], T) and isinstance(a[1], T):
                return True, _TermAt(a[0], a[1])
            if callee == "<SolarTerm as Tyme>::next" and isinstance(a[0], _TermAt) and isinstance(a[1], T):
                return True, _TermAt(a[0].y, T("(+ %s %s)" % (a[0].k.s, a[1].s), "Int"))
            if callee == "SolarTerm::get_julian_day" and isinstance(a[0], _TermAt):
                return True, _TermTime(a[0])
            if callee == "JulianDay::get_solar_time" and isinstance(a[0], _TermTime):
                return True, a[0]
            if callee == "JulianDay::get_solar_day" and isinstance(a[0], _TermTime):
                return True, _CandDay(a[0].term, I(0))
            if isinstance(a[0] if a else None, _TermTime):
                t = a[0].term
                if callee == "SolarTime::get_year":
                    return True, T(term_year(t), "Int")
                if callee == "SolarTime::get_solar_day":
                    return True, _CandDay(t, I(0))
                if callee in ("SolarTime::get_hour", "SolarTime::get_minute", "SolarTime::get_second"):
                    v = c.fresh_value("term_" + callee.split("::get_")[1], "usize")
                    path.pc.append(T("(<= 0 %s %d)" % (v.s, 23 if callee.endswith("hour") else 59), "Bool"))
                    return True, v
            if len(a) == 2 and isinstance(a[0], _CandDay) and isinstance(a[1], _CandDay) and callee in ("SolarDay::is_before", "SolarDay::is_after"):
                # days counted from two terms of one term-year: the Jie after the governing one comes 29..32 days after it (term spacing, C06 data)
                t1, t2 = a[0].term, a[1].term
                if t1.y.s == t2.y.s and t2.k.s == "(+ %s 2)" % t1.k.s:
                    gap = gaps.setdefault((t1.y.s, t1.k.s), c.fresh_value("days_to_the_next_jie", "isize"))
                    path.pc.append(T("(<= 29 %s 32)" % gap.s, "Bool"))
                    lhs, rhs = a[0].shift.s, "(+ %s %s)" % (gap.s, a[1].shift.s)
                    return True, T("(%s %s %s)" % ("<" if callee.endswith("before") else ">", lhs, rhs), "Bool")
                if t1.y.s == t2.y.s and t1.k.s == t2.k.s:
                    return True, T("(%s %s %s)" % ("<" if callee.endswith("before") else ">", a[0].shift.s, a[1].shift.s), "Bool")
            if isinstance(a[0] if a else None, _CandDay):
                if callee == "SolarDay::get_lunar_day":
                    return True, Rec(c, "lunar_day_of_the_term_day")
                if callee == "<SolarDay as Tyme>::next" and isinstance(a[1], T):
                    return True, _CandDay(a[0].term, T("(+ %s %s)" % (a[0].shift.s, a[1].s), "Int"))
                if callee in ("SolarDay::get_year", "SolarDay::get_month", "SolarDay::get_day"):
                    if callee == "SolarDay::get_year":
                        g = cand_year(a[0].term, a[0].shift)
                        t = _Tag(g.s, "Int")
                        ty = term_year(a[0].term)
                        path.pc.append(T("(and (<= %s %s) (<= %s (+ %s 1)))" % (ty, g.s, g.s, ty), "Bool"))
                    else:
                        nm = c.sym(callee.split("::")[1])
                        c.inputs[nm] = ("Int", -(1 << 40), 1 << 40)
                        t = _Tag(nm, "Int")
                    t.of, t.what = a[0], callee.split("::")[1]
                    return True, t
            if callee == "LunarDay::get_sixty_cycle" and isinstance(a[0], Rec) and a[0].name == "lunar_day_of_the_term_day":
                if dmode == "zero":
                    return True, Obj("SixtyCycle", P["day"])           # the term day already has the wanted day pillar
                dd = c.fresh_value("days_from_the_term_day_to_the_candidate_day", "usize")
                # the facts the body will ask about, in the very form it asks them (so that no infeasible branch is explored)
                path.pc += [T("(<= 1 %s 59)" % dd.s, "Bool"), T("(> %s 0)" % dd.s, "Bool"), T("(not (= %s 0))" % dd.s, "Bool")]
                o = Obj("SixtyCycle", T("(mod (- %s %s) 60)" % (P["day"].s, dd.s), "Int"))
                o.dd = dd
                holder["last_dd"] = dd
                return True, o
            if dmode == "pos" and callee == "SixtyCycle::get_index" and isinstance(a[0], Obj) and getattr(a[0], "from_dd", None) is not None:
                return True, a[0].from_dd
            if dmode == "pos" and callee == "<SixtyCycle as Tyme>::next" and isinstance(a[0], Obj) and a[0].idx.s == P["day"].s and isinstance(a[1], T):
                # wanted day pillar stepped back by the term day's pillar index: by construction exactly dd steps ahead of the term day
                r = Obj("SixtyCycle", T("(mod (+ %s %s) 60)" % (P["day"].s, a[1].s), "Int"))
                r.from_dd = holder.get("last_dd")
                return True, r
            if callee == "SolarTime::from_ymd_hms" and len(a) == 6 and all(isinstance(x, _Tag) for x in a[:3]) and a[0].of is a[1].of is a[2].of and isinstance(a[3], T):
                r = Rec(c, "tried_instant", "SolarTime")
                tried.append((a[0].of.term.y, a[3], r))
                return True, r
            if callee == "SolarTime::get_lunar_hour" and isinstance(a[0], Rec) and a[0].name == "tried_instant":
                return True, Rec(c, "lunar_hour_of_a_tried_instant")
            if callee == "LunarHour::get_eight_char":
                return True, Rec(c, "eight_char_of_a_tried_instant")
            if callee == "<EightChar as PartialEq>::eq":
                return True, M.B(True)      # what is TRIED is decided here; every tried instant is taken as kept (the comparison itself is 09.c/09.d)
            # the list of hours: a local vector walked by reference
            if callee == "<Vec<usize> as Deref>::deref" and isinstance(a[0], VecV):
                return True, a[0]
            if callee == "core::slice::<impl [usize]>::iter" and isinstance(a[0], VecV):
                return True, IterV(list(a[0].items))
            if callee.startswith("<std::slice::Iter<") and callee.endswith("as IntoIterator>::into_iter") and isinstance(a[0], IterV):
                return True, a[0]
            if callee.startswith("<std::slice::Iter<") and callee.endswith("as Iterator>::next"):
                ref, it = args[0], a[0]
                if isinstance(ref, Ref) and not ref.proj and isinstance(it, IterV):
                    if not it.items:
                        return True, Variant("None", None)
                    nv = IterV(it.items[1:])
                    ref.frame["vals"][ref.local] = nv
                    if fr["fn"] is ref.frame["fn"]:
                        fr["vals"][ref.local] = nv
                    return True, Variant("Some", it.items[0])
            return base(c, fr, callee, args, path)
        model.call = call
        holder["tried"] = tried
        pre = ["(<= 0 %s 59)" % P[f].s for f in fields] + ["(<= 1 %s 9900)" % start.s, "(<= %s %s)" % (start.s, end.s), "(<= %s (+ %s %d))" % (end.s, start.s, span), "(<= %s 9990)" % end.s]
        from . import solve
        ctx.prune = lambda p: solve.feasible(ctx.inputs, pre + [c.s for c in p.pc])
        paths = ctx.run(fn, [("refrec", rec), start, end])
        holder["pruned"] = ctx.pruned
        hb = "(mod %s 12)" % P["hour"].s
        Y = ctx.fresh_value("any_year_with_the_wanted_year_pillar", "isize")
        pre += ["(<= (- %s 1) %s %s)" % (start.s, Y.s, end.s), "(<= 1 %s)" % Y.s, "(= (mod (- %s 4) 60) %s)" % (Y.s, P["year"].s)]
        legal = "(= (mod (+ (* 2 (+ (mod %s 10) 1)) (mod (- (mod %s 12) 2) 12)) 10) (mod %s 10))" % (P["year"].s, P["month"].s, P["month"].s)

        def visited(p):
            return [c for c in p.calls if c[0] == "SolarTerm::from_index"]

        def shape(p):
            if getattr(p, "cut", False):
                return None
            return None if isinstance(p.ret, VecV) else "result is not the vector that was filled"

        def posts(p):
            if getattr(p, "cut", False):
                return []
            vs = visited(p)
            ys = [c[1][0].s for c in vs]
            out = [("every-candidate-year-is-visited", "(=> %s (or false %s))" % (legal, " ".join("(= %s %s)" % (Y.s, y) for y in ys)))]
            # for every visited year whose candidate day lies in a civil year >= start_year, one of the tried hours lies in the hour pillar's
            # double hour (the candidate day is the term day or 1..59 days later: its civil year is the term's or the next one)
            mine = [c for c in p.calls if c[0] == "SolarTime::from_ymd_hms"]
            for k, v in enumerate(vs):
                y = v[1][0].s
                terms = [c[2].term for c in p.calls if c[0] == "SolarTerm::get_julian_day" and isinstance(c[2], _TermTime) and c[2].term.y.s == y]
                if not terms:
                    out.append(("year-%d-term-looked-up" % k, "false"))
                    continue
                # the Jie that opens the wanted month: term 3 (Lichun) of the term-year advanced by two per month branch after Yin
                out.append(("year-%d-starts-from-the-months-jie" % k, "(= %s (+ 3 (* 2 (mod (- (mod %s 12) 2) 12))))" % (terms[-1].k.s, P["month"].s)))
                ty = term_year(terms[-1])
                if dmode == "zero":
                    in_range = "(>= %s %s)" % (ty, start.s)
                else:
                    g = cand_year(terms[-1], T("later", "Int"))
                    in_range = "(and (<= %s %s) (<= %s (+ %s 1)) (>= %s %s))" % (ty, g.s, g.s, ty, g.s, start.s)
                hours = [c[1][3].s for c in mine if isinstance(c[1][0], _Tag) and c[1][0].of.term.y.s == y]
                out.append(("year-%d-tries-the-double-hour" % k, "(=> %s (or false %s))" % (in_range, " ".join("(= (mod (div (+ %s 1) 2) 12) %s)" % (h, hb) for h in hours))))
            return out
        return ctx, paths, pre, posts, shape

    def replay(eng, model):
        nat = eng.native("inverse_search_scan")
        if nat in ("NONE", "PANIC", "UNKNOWN", ""):
            return nat == "PANIC", "native scan: " + (nat or "no output")
        return True, "the inverse search misses an instant that has the wanted eight characters: " + nat

    r = run_kernel(eng, "09.e/B/inverse-search/%s-span%d" % ("on-the-term-day" if dmode == "zero" else "after-the-term-day", span), "09.e",
                   "every eight characters, every range of up to %d years within 1..9990, candidate day %s; cycle loop unrolled (bound proved)" % (
                       span, "= the term day" if dmode == "zero" else "1..59 days after the term day"), build, None, replay)
    return _finish(r, holder["ctx"]) if "ctx" in holder else r
