"""Engine B kernels over the axiomatised object model: pillars built by name, six-day star, eight-character signs."""
import os
from . import mir as M
from .mir import T, I, Rec, Ref, Tup, Unsupported
from . import solve
from .kernels import run_kernel, struct_fields, REPO
from .objmodel import Model, Obj, JD, AXIOMS


def _ctx(eng, inline):
    ctx = eng.ctx(inline)
    ctx.model = Model()
    return ctx


def _finish(r, ctx):
    r["axioms"] = {k: AXIOMS[k] for k in sorted(ctx.model.used)}
    r["engine"] = "B mir2smt + object model (z3 + cvc5, integer SMT-LIB from rustc MIR)"
    return r


def _pillar_idx(v):
    if not isinstance(v, Obj) or v.kind != "SixtyCycle":
        raise Unsupported("result is not a modelled pillar")
    return v.idx


def mod(a, n):
    return "(mod %s %d)" % (a, n)


# ------------------------------------------------------------------------------------------------ eight-character signs (19.l)
def k_eight_char(eng, which):
    name, method = {0: ("fetal-origin", "get_fetal_origin"), 1: ("fetal-breath", "get_fetal_breath"), 2: ("own-sign", "get_own_sign"), 3: ("body-sign", "get_body_sign")}[which]
    holder = {}

    def build(eng):
        fields = struct_fields(os.path.join(REPO, "src/tyme/eightchar/mod.rs"), "EightChar")
        ix = {n: k for k, n in enumerate(fields)}
        fn = M.find_fn(eng.fns, method, "&EightChar")
        ctx = _ctx(eng, {})
        rec = Rec(ctx, "self", "EightChar")
        P = {}
        for f in ("year", "month", "day", "hour"):
            v = ctx.fresh_value("self." + f, "usize")
            P[f] = v
            rec.fields[ix[f]] = Obj("SixtyCycle", v)
        paths = ctx.run(fn, [("refrec", rec)])
        pre = ["(<= %s 59)" % P[f].s for f in P]
        holder.update(ctx=ctx, P=P)
        y, m, d, h = P["year"].s, P["month"].s, P["day"].s, P["hour"].s
        # Five Tigers: the month with branch b (寅 = first) of a year with stem ys has stem ((ys mod 5)*2 + 2 + ((b-2) mod 12)) mod 10
        def tiger(b):
            return mod("(+ (* 2 (mod (mod %s 10) 5)) 2 (mod (- %s 2) 12))" % (y, b), 10)

        def shape(p):
            try:
                _pillar_idx(p.ret)
            except Unsupported as e:
                return str(e)
            return None

        def posts(p):
            r = _pillar_idx(p.ret).s
            rs, rb = mod(r, 10), mod(r, 12)
            if which == 0:
                return [("stem", "(= %s (mod (+ (mod %s 10) 1) 10))" % (rs, m)), ("branch", "(= %s (mod (+ (mod %s 12) 3) 12))" % (rb, m))]
            if which == 1:
                # five-combination partner = stem + 5; six-combination partner b' with b + b' = 1 (mod 12)
                return [("stem", "(= %s (mod (+ (mod %s 10) 5) 10))" % (rs, d)), ("branch", "(= (mod (+ %s (mod %s 12)) 12) 1)" % (rb, d))]
            if which == 2:
                mn = "(+ (mod (- (mod %s 12) 2) 12) 1)" % m
                hn = "(+ (mod (- (mod %s 12) 2) 12) 1)" % h
                s = "(+ %s %s)" % (mn, hn)
                sign = "(ite (< %s 14) (- 14 %s) (- 26 %s))" % (s, s, s)
                br = "(mod (+ %s 1) 12)" % sign
                return [("branch", "(= %s %s)" % (rb, br)), ("stem", "(= %s %s)" % (rs, tiger(br)))]
            br = "(mod (+ 2 (mod (- (+ (mod %s 12) (mod %s 12)) 1) 12)) 12)" % (m, h)
            return [("branch", "(= %s %s)" % (rb, br)), ("stem", "(= %s %s)" % (rs, tiger(br)))]
        return ctx, paths, pre, posts, shape

    def replay(eng, model):
        P = holder["P"]
        try:
            v = [int(model[P[f].s]) for f in ("year", "month", "day", "hour")]
        except Exception as e:
            return False, "model incomplete %r" % e
        # the model constrains only residues: use it as is (pillars are any 0..59)
        nat = eng.native("eight_char_sign", which, *v)
        if nat == "PANIC":
            return True, "EightChar(pillars %s).%s() panics" % (v, method)
        k = int(nat)
        ys, mb, hb, ds, db, ms = v[0] % 10, v[1] % 12, v[3] % 12, v[2] % 10, v[2] % 12, v[1] % 10
        tiger = lambda b: ((ys % 5) * 2 + 2 + (b - 2) % 12) % 10
        if which == 0:
            exp = ((ms + 1) % 10, (mb + 3) % 12)
        elif which == 1:
            exp = ((ds + 5) % 10, (1 - db) % 12)
        elif which == 2:
            s = ((mb - 2) % 12 + 1) + ((hb - 2) % 12 + 1)
            sign = 14 - s if s < 14 else 26 - s
            b = (sign + 1) % 12
            exp = (tiger(b), b)
        else:
            b = (2 + (mb + hb - 1) % 12) % 12
            exp = (tiger(b), b)
        got = (k % 10, k % 12)
        return (got != exp), "EightChar(year %d, month %d, day %d, hour %d).%s() = pillar %d (stem %d, branch %d), expected stem %d, branch %d" % (v[0], v[1], v[2], v[3], method, k, got[0], got[1], exp[0], exp[1])

    def validate(eng, ctx, paths, pre):
        P = holder["P"]
        cases = [(0, 9, 0, 7), (36, 2, 10, 23), (59, 59, 59, 59), (4, 14, 25, 38), (1, 13, 0, 1), (20, 30, 40, 50)]
        queries = []
        for k, c in enumerate(cases):
            pin = ["(= %s %d)" % (P[f].s, x) for f, x in zip(("year", "month", "day", "hour"), c)]
            for j, p in enumerate(paths):
                queries.append(("val/%d/%d" % (k, j), pin + [q.s for q in p.pc] + ["(= vr %s)" % _pillar_idx(p.ret).s], "true", ["vr"]))
        decls = dict(ctx.inputs)
        decls["vr"] = ("Int", None, None)
        final, _, _ = solve.decide(decls, queries)
        n_ok = 0
        for k, c in enumerate(cases):
            got = None
            for j in range(len(paths)):
                r = final.get("val/%d/%d" % (k, j))
                if r and r["verdict"] == "cex":
                    got = r["model"]["vr"]
            nat = eng.native("eight_char_sign", which, *c)
            if got is None and nat == "PANIC":
                continue      # the encoding has no model where the real code panics (illegal pillar): consistent
            if got != nat:
                return False, "pillars %s: encoding %s native %s" % (c, got, nat), k
            n_ok += 1
        return True, "encoding and native %s agree on %d inputs" % (method, n_ok), len(cases)

    r = run_kernel(eng, "19.l/B/" + name, "19.l", "all 60^4 combinations of pillars (only residues matter)", build, validate, replay)
    return _finish(r, holder["ctx"]) if "ctx" in holder else r


# ------------------------------------------------------------------------------------------------ day pillar (07.c)
def k_day_pillar(eng):
    holder = {}

    def build(eng):
        fields = struct_fields(os.path.join(REPO, "src/tyme/lunar.rs"), "LunarDay")
        ix = {n: k for k, n in enumerate(fields)}
        fn = M.find_fn(eng.fns, "get_sixty_cycle", "&LunarDay")
        ctx = _ctx(eng, {})
        rec = Rec(ctx, "self", "LunarDay")
        day = rec.field(ix["day"], "usize")
        X = ctx.fresh_value("first_day_number", "isize")
        holder.update(ctx=ctx, day=day, X=X)
        # LunarMonth::get_first_julian_day(&self.month) -> the month's first day count (any integral value in range)
        model = ctx.model
        base_call = model.call

        def call(c, fr, callee, args, path):
            if callee == "LunarMonth::get_first_julian_day":
                return True, JD(X)
            return base_call(c, fr, callee, args, path)
        model.call = call
        paths = ctx.run(fn, [("refrec", rec)])
        pre = ["(<= 1 %s 30)" % day.s, "(<= 1721424 %s 5373484)" % X.s]

        def shape(p):
            try:
                _pillar_idx(p.ret)
            except Unsupported as e:
                return str(e)
            return None

        def posts(p):
            r = _pillar_idx(p.ret).s
            n = "(+ %s %s (- 1))" % (X.s, day.s)
            return [("pillar", "(= %s (mod (+ %s 49) 60))" % (r, n))]
        return ctx, paths, pre, posts, shape

    def replay(eng, model):
        try:
            x, d = int(model[holder["X"].s]), int(model[holder["day"].s])
        except Exception as e:
            return False, "model incomplete %r" % e
        nat = eng.native("lunar_day_pillar", x % 60, min(d, 29))
        if nat in ("NONE", "PANIC"):
            return nat == "PANIC", "no real lunar month with that residue" if nat == "NONE" else "panic"
        n, k = [int(t) for t in nat.split()]
        return (k != (n + 49) % 60), "lunar day with day number %d has pillar %d, expected %d" % (n, k, (n + 49) % 60)

    def validate(eng, ctx, paths, pre):
        cases = [(r, d) for r in (0, 11, 37, 59) for d in (1, 15, 29)]
        queries = []
        for k, (r, d) in enumerate(cases):
            nat = eng.native("lunar_day_pillar", r, d)
            if nat in ("NONE", "PANIC"):
                continue
            n, exp = [int(t) for t in nat.split()]
            x = n - d + 1
            for j, p in enumerate(paths):
                queries.append(("val/%d/%d/%d" % (k, j, exp), ["(= %s %d)" % (holder["X"].s, x), "(= %s %d)" % (holder["day"].s, d)] + [q.s for q in p.pc] + ["(= vr %s)" % _pillar_idx(p.ret).s], "true", ["vr"]))
        decls = dict(ctx.inputs)
        decls["vr"] = ("Int", None, None)
        final, _, _ = solve.decide(decls, queries)
        seen = {}
        for qid, r in final.items():
            k, j, exp = qid.split("/")[1:]
            if r["verdict"] == "cex":
                seen[k] = (r["model"]["vr"], exp)
        for k, (got, exp) in seen.items():
            if got != exp:
                return False, "case %s: encoding %s native %s" % (k, got, exp), int(k)
        if len(seen) < 6:
            return False, "only %d cases could be evaluated" % len(seen), len(seen)
        return True, "encoding and native LunarDay::get_sixty_cycle agree on %d real lunar days" % len(seen), len(seen)

    r = run_kernel(eng, "07.c/B/day-pillar", "07.c", "every month first day number 1721424..5373484, every day 1..30", build, validate, replay)
    return _finish(r, holder["ctx"]) if "ctx" in holder else r


# ------------------------------------------------------------------------------------------------ month pillar (08.b)
def k_month_pillar(eng):
    holder = {}

    def build(eng):
        fields = struct_fields(os.path.join(REPO, "src/tyme/lunar.rs"), "LunarMonth")
        ix = {n: k for k, n in enumerate(fields)}
        yfields = struct_fields(os.path.join(REPO, "src/tyme/lunar.rs"), "LunarYear")
        fn = M.find_fn(eng.fns, "get_sixty_cycle", "&LunarMonth")
        ctx = _ctx(eng, {"LunarYear::get_sixty_cycle": ("get_sixty_cycle", "&LunarYear", None)})
        rec = Rec(ctx, "self", "LunarMonth")
        yrec = rec.field(ix["year"], "LunarYear")
        year = yrec.field(yfields.index("year"), "isize")
        idx = rec.field(ix["index_in_year"], "usize")
        holder.update(ctx=ctx, year=year, idx=idx)
        paths = ctx.run(fn, [("refrec", rec)])
        pre = ["(<= (- 1) %s 9999)" % year.s, "(<= 0 %s 12)" % idx.s]

        def shape(p):
            try:
                _pillar_idx(p.ret)
            except Unsupported as e:
                return str(e)
            return None

        def posts(p):
            r = _pillar_idx(p.ret).s
            ys = "(mod (- %s 4) 10)" % year.s
            return [("branch", "(= (mod %s 12) (mod (+ %s 2) 12))" % (r, idx.s)),
                    ("stem", "(= (mod %s 10) (mod (+ (* 2 (mod %s 5)) 2 %s) 10))" % (r, ys, idx.s))]
        return ctx, paths, pre, posts, shape

    def replay(eng, model):
        try:
            y, i = int(model[holder["year"].s]), int(model[holder["idx"].s])
        except Exception as e:
            return False, "model incomplete %r" % e
        ys = (y - 4) % 10
        nat = eng.native("lunar_month_pillar", ys, i)
        if nat in ("NONE", "PANIC"):
            return nat == "PANIC", nat
        k = int(nat)
        exp = (((ys % 5) * 2 + 2 + i) % 10, (i + 2) % 12)
        return ((k % 10, k % 12) != exp), "lunar month index %d of a year with stem %d has pillar %d, expected stem %d branch %d" % (i, ys, k, exp[0], exp[1])

    def validate(eng, ctx, paths, pre):
        cases = [(2020, 0), (2020, 12), (2023, 5), (1999, 11), (2033, 12)]
        queries = []
        exp = {}
        for k, (y, i) in enumerate(cases):
            nat = eng.native("lunar_month_pillar", (y - 4) % 10, i)
            if nat in ("NONE", "PANIC"):
                continue
            exp[str(k)] = nat
            for j, p in enumerate(paths):
                queries.append(("val/%d/%d" % (k, j), ["(= %s %d)" % (holder["year"].s, y), "(= %s %d)" % (holder["idx"].s, i)] + [q.s for q in p.pc] + ["(= vr %s)" % _pillar_idx(p.ret).s], "true", ["vr"]))
        decls = dict(ctx.inputs)
        decls["vr"] = ("Int", None, None)
        final, _, _ = solve.decide(decls, queries)
        n = 0
        for qid, r in final.items():
            k = qid.split("/")[1]
            if r["verdict"] == "cex":
                n += 1
                if r["model"]["vr"] != exp[k]:
                    return False, "case %s: encoding %s native %s" % (k, r["model"]["vr"], exp[k]), n
        return (n >= 4), "encoding and native LunarMonth::get_sixty_cycle agree on %d months" % n, n

    r = run_kernel(eng, "08.b/B/month-pillar", "08.b", "every year -1..9999, every index in year 0..12", build, validate, replay)
    return _finish(r, holder["ctx"]) if "ctx" in holder else r


# ------------------------------------------------------------------------------------------------ hour pillar (09.a)
def k_hour_pillar(eng):
    holder = {}

    def build(eng):
        fields = struct_fields(os.path.join(REPO, "src/tyme/lunar.rs"), "LunarHour")
        ix = {n: k for k, n in enumerate(fields)}
        fn = M.find_fn(eng.fns, "get_sixty_cycle", "&LunarHour")
        ctx = _ctx(eng, {"LunarHour::get_index_in_day": ("get_index_in_day", "&LunarHour", None)})
        rec = Rec(ctx, "self", "LunarHour")
        hour = rec.field(ix["hour"], "usize")
        dp = ctx.fresh_value("day_pillar", "usize")
        holder.update(ctx=ctx, hour=hour, dp=dp)
        model = ctx.model
        base_call = model.call

        def call(c, fr, callee, args, path):
            if callee == "LunarDay::get_sixty_cycle":
                return True, Obj("SixtyCycle", dp)     # the day pillar is an arbitrary pillar here; its value is 07.c
            return base_call(c, fr, callee, args, path)
        model.call = call
        paths = ctx.run(fn, [("refrec", rec)])
        pre = ["(<= 0 %s 23)" % hour.s, "(<= 0 %s 59)" % dp.s]

        def shape(p):
            try:
                _pillar_idx(p.ret)
            except Unsupported as e:
                return str(e)
            return None

        def posts(p):
            r = _pillar_idx(p.ret).s
            br = "(mod (div (+ %s 1) 2) 12)" % hour.s
            d = "(ite (>= %s 23) (mod (+ %s 1) 60) %s)" % (hour.s, dp.s, dp.s)
            return [("branch", "(= (mod %s 12) %s)" % (r, br)),
                    ("stem", "(= (mod %s 10) (mod (+ (* 2 (mod (mod %s 10) 5)) %s) 10))" % (r, d, br))]
        return ctx, paths, pre, posts, shape

    def replay(eng, model):
        try:
            h, dp = int(model[holder["hour"].s]), int(model[holder["dp"].s])
        except Exception as e:
            return False, "model incomplete %r" % e
        nat = eng.native("lunar_hour_pillar", dp, h)
        if nat in ("NONE", "PANIC"):
            return nat == "PANIC", nat
        k = int(nat)
        br = ((h + 1) // 2) % 12
        d = (dp + 1) % 60 if h >= 23 else dp
        exp = ((2 * ((d % 10) % 5) + br) % 10, br)
        return ((k % 10, k % 12) != exp), "hour %d on a day with pillar %d has hour pillar %d, expected stem %d branch %d" % (h, dp, k, exp[0], exp[1])

    def validate(eng, ctx, paths, pre):
        cases = [(0, 0), (10, 23), (59, 23), (33, 22), (7, 11), (48, 1)]
        queries = []
        exp = {}
        for k, (dp, h) in enumerate(cases):
            nat = eng.native("lunar_hour_pillar", dp, h)
            if nat in ("NONE", "PANIC"):
                continue
            exp[str(k)] = nat
            for j, p in enumerate(paths):
                queries.append(("val/%d/%d" % (k, j), ["(= %s %d)" % (holder["dp"].s, dp), "(= %s %d)" % (holder["hour"].s, h)] + [q.s for q in p.pc] + ["(= vr %s)" % _pillar_idx(p.ret).s], "true", ["vr"]))
        decls = dict(ctx.inputs)
        decls["vr"] = ("Int", None, None)
        final, _, _ = solve.decide(decls, queries)
        n = 0
        for qid, r in final.items():
            k = qid.split("/")[1]
            if r["verdict"] == "cex":
                n += 1
                if r["model"]["vr"] != exp[k]:
                    return False, "case %s: encoding %s native %s" % (k, r["model"]["vr"], exp[k]), n
        return (n >= 5), "encoding and native LunarHour::get_sixty_cycle agree on %d (day pillar, hour) pairs" % n, n

    r = run_kernel(eng, "09.a/B/hour-pillar", "09.a", "all 60 day pillars x 24 hours", build, validate, replay)
    return _finish(r, holder["ctx"]) if "ctx" in holder else r


# ------------------------------------------------------------------------------------------------ six-day star (17.a)
def k_six_star(eng):
    holder = {}

    def build(eng):
        fields = struct_fields(os.path.join(REPO, "src/tyme/lunar.rs"), "LunarDay")
        ix = {n: k for k, n in enumerate(fields)}
        mfields = struct_fields(os.path.join(REPO, "src/tyme/lunar.rs"), "LunarMonth")
        fn = M.find_fn(eng.fns, "get_six_star", "&LunarDay")
        ctx = _ctx(eng, {"LunarMonth::get_month": ("get_month", "&LunarMonth", None), "LunarDay::get_month": ("get_month", "&LunarDay", None),
                         "LunarMonth::get_month_with_leap": ("get_month_with_leap", "&LunarMonth", None)})
        rec = Rec(ctx, "self", "LunarDay")
        day = rec.field(ix["day"], "usize")
        mrec = rec.field(ix["month"], "LunarMonth")
        month = mrec.field(mfields.index("month"), "usize")
        leap = mrec.field(mfields.index("leap"), "bool")
        holder.update(ctx=ctx, day=day, month=month, leap=leap)
        paths = ctx.run(fn, [("refrec", rec)])
        pre = ["(<= 1 %s 30)" % day.s, "(<= 1 %s 12)" % month.s]

        def shape(p):
            if not (isinstance(p.ret, Obj) and p.ret.kind == "SixStar"):
                return "result is not a modelled six-day star"
            return None

        def posts(p):
            return [("star", "(= %s (mod (+ %s %s (- 2)) 6))" % (p.ret.idx.s, month.s, day.s))]
        return ctx, paths, pre, posts, shape

    def replay(eng, model):
        try:
            m, d = int(model[holder["month"].s]), int(model[holder["day"].s])
            lp = 1 if model.get(holder["leap"].s) == "true" else 0
        except Exception as e:
            return False, "model incomplete %r" % e
        nat = eng.native("six_star", m, lp, min(d, 29))
        if nat in ("NONE", "PANIC"):
            return nat == "PANIC", nat
        exp = (m + min(d, 29) - 2) % 6
        return (int(nat) != exp), "six-day star of %smonth %d day %d is %s, expected %d" % ("leap " if lp else "", m, min(d, 29), nat, exp)

    r = run_kernel(eng, "17.a/B/six-star", "17.a", "every month 1..12, regular or leap, every day 1..30", build, None, replay)
    return _finish(r, holder["ctx"]) if "ctx" in holder else r


# ------------------------------------------------------------------------------------------------ year pillar (08.a)
def k_year_pillar(eng, which):
    """which: 'LunarYear' | 'SixtyCycleYear'"""
    holder = {}
    src = "src/tyme/lunar.rs" if which == "LunarYear" else "src/tyme/sixtycycle.rs"

    def build(eng):
        fields = struct_fields(os.path.join(REPO, src), which)
        fn = M.find_fn(eng.fns, "get_sixty_cycle", "&" + which)
        ctx = _ctx(eng, {})
        rec = Rec(ctx, "self", which)
        year = rec.field(fields.index("year"), "isize")
        holder.update(ctx=ctx, year=year)
        paths = ctx.run(fn, [("refrec", rec)])
        pre = ["(<= (- 1) %s 9999)" % year.s]

        def shape(p):
            try:
                _pillar_idx(p.ret)
            except Unsupported as e:
                return str(e)
            return None

        def posts(p):
            return [("pillar", "(= %s (mod (- %s 4) 60))" % (_pillar_idx(p.ret).s, year.s))]
        return ctx, paths, pre, posts, shape

    def replay(eng, model):
        try:
            y = int(model[holder["year"].s])
        except Exception as e:
            return False, "model incomplete %r" % e
        nat = eng.native("year_pillar", y)
        if nat == "PANIC":
            return True, "panic"
        a, b = [int(t) for t in nat.split()]
        got = b if which == "LunarYear" else a
        return (got != (y - 4) % 60), "%s(%d) pillar %d expected %d" % (which, y, got, (y - 4) % 60)

    r = run_kernel(eng, "08.a/B/%s" % which, "08.a", "every year -1..9999", build, None, replay)
    return _finish(r, holder["ctx"]) if "ctx" in holder else r


# ------------------------------------------------------------------------------------------------ first month of a sexagenary year (08.c)
def k_first_month(eng):
    holder = {}

    def build(eng):
        fields = struct_fields(os.path.join(REPO, "src/tyme/sixtycycle.rs"), "SixtyCycleYear")
        fn = M.find_fn(eng.fns, "get_first_month", "&SixtyCycleYear")
        ctx = _ctx(eng, {"SixtyCycleYear::get_sixty_cycle": ("get_sixty_cycle", "&SixtyCycleYear", None)})
        rec = Rec(ctx, "self", "SixtyCycleYear")
        year = rec.field(fields.index("year"), "isize")
        holder.update(ctx=ctx, year=year)
        paths = ctx.run(fn, [("refrec", rec)])
        pre = ["(<= (- 1) %s 9999)" % year.s]

        def shape(p):
            if not (isinstance(p.ret, Rec) and hasattr(p.ret, "named") and "month" in p.ret.named and "year" in p.ret.named):
                return "result is not a SixtyCycleMonth aggregate"
            try:
                _pillar_idx(p.ret.named["month"])
            except Unsupported as e:
                return str(e)
            if p.ret.named["year"] is not rec:
                return "the month's year is not the receiver"
            return None

        def posts(p):
            r = _pillar_idx(p.ret.named["month"]).s
            ys = "(mod (- %s 4) 10)" % year.s
            return [("branch", "(= (mod %s 12) 2)" % r), ("stem", "(= (mod %s 10) (mod (+ (* 2 (mod %s 5)) 2) 10))" % (r, ys))]
        return ctx, paths, pre, posts, shape

    def replay(eng, model):
        try:
            y = int(model[holder["year"].s])
        except Exception as e:
            return False, "model incomplete %r" % e
        nat = eng.native("first_month", y)
        if nat == "PANIC":
            return True, "panic"
        k = int(nat)
        ys = (y - 4) % 10
        exp = (((ys % 5) * 2 + 2) % 10, 2)
        return ((k % 10, k % 12) != exp), "first month of year %d is pillar %d, expected stem %d branch 2" % (y, k, exp[0])

    r = run_kernel(eng, "08.c/B/first-month", "08.c", "every year -1..9999", build, None, replay)
    return _finish(r, holder["ctx"]) if "ctx" in holder else r


# ------------------------------------------------------------------------------------------------ sexagenary month stepping (11.g)
def k_sixty_month_next(eng):
    """SixtyCycleMonth::next(n): month pillar + n mod 60; year = floor((12 * year + index in year + n) / 12).  Sexagenary years are
    objects carrying their year number (from_year(x) -> x, next(k) -> +k: 11.f), so the specification reads the year of whatever
    year object ends up in the result, however it was built."""
    holder = {}

    class YearObj:
        def __init__(self, t):
            self.t = t

    def build(eng):
        fields = struct_fields(os.path.join(REPO, "src/tyme/sixtycycle.rs"), "SixtyCycleMonth")
        ix = {n: k for k, n in enumerate(fields)}
        fn = M.find_fn(eng.fns, "next", "&SixtyCycleMonth")
        ctx = _ctx(eng, {"SixtyCycleMonth::get_index_in_year": ("get_index_in_year", "&SixtyCycleMonth", None)})
        rec = Rec(ctx, "self", "SixtyCycleMonth")
        year = ctx.fresh_value("self.year", "isize")
        rec.fields[ix["year"]] = YearObj(year)
        k = ctx.fresh_value("self.month", "usize")
        rec.fields[ix["month"]] = Obj("SixtyCycle", k)
        n = ctx.fresh_value("n", "isize")
        holder.update(ctx=ctx, year=year, k=k, n=n)
        model = ctx.model
        base = model.call

        def call(c, fr, callee, args, path):
            a = [model.deref(c, x) for x in args]
            if callee == "SixtyCycleYear::from_year" and isinstance(a[0], T):
                return True, YearObj(a[0])
            if a and isinstance(a[0], YearObj):
                if callee == "SixtyCycleYear::get_year":
                    return True, a[0].t
                if callee == "<SixtyCycleYear as Tyme>::next" and isinstance(a[1], T):
                    return True, YearObj(T("(+ %s %s)" % (a[0].t.s, a[1].s), "Int"))
                if callee.endswith("::clone"):
                    return True, a[0]
            return base(c, fr, callee, args, path)
        model.call = call
        paths = ctx.run(fn, [("refrec", rec), n])
        pre = ["(<= 1 %s 9998)" % year.s, "(<= 0 %s 59)" % k.s, "(<= (- 100000) %s 100000)" % n.s]

        def shape(p):
            if not (isinstance(p.ret, Rec) and hasattr(p.ret, "named") and "month" in p.ret.named and "year" in p.ret.named):
                return "result is not a SixtyCycleMonth aggregate"
            if not isinstance(p.ret.named["year"], YearObj):
                return "the result's year is not a modelled sexagenary year"
            return None

        def posts(p):
            newk = _pillar_idx(p.ret.named["month"]).s
            y2 = p.ret.named["year"].t.s
            i = "(mod (- (mod %s 12) 2) 12)" % k.s
            tot = "(+ (* 12 %s) %s %s)" % (year.s, i, n.s)
            return [("pillar", "(= %s (mod (+ %s %s) 60))" % (newk, k.s, n.s)),
                    ("year", "(=> (and (<= 0 %s) (<= %s 119999)) (= %s (div %s 12)))" % (tot, tot, y2, tot))]
        return ctx, paths, pre, posts, shape

    def replay(eng, model):
        try:
            y, k, n = int(model[holder["year"].s]), int(model[holder["k"].s]), int(model[holder["n"].s])
        except Exception as e:
            return False, "model incomplete %r" % e
        nat = "NOT"
        for yy in list(range(y, min(y + 10, 9999))) + list(range(max(y - 10, 1), y)):
            nat = eng.native("sixty_month_next", yy, k, n)
            if not nat.startswith("NOT"):
                y = yy
                break
        if nat.startswith("NOT"):
            return False, "no year near %d has a month with pillar %d" % (y, k)
        if nat == "PANIC":
            return False, "panic (target year out of range?)"
        y2, k2 = [int(t) for t in nat.split()]
        i = ((k % 12) - 2) % 12
        tot = 12 * y + i + n
        return ((y2, k2) != (tot // 12, (k + n) % 60)), "month pillar %d of year %d stepped by %d: year %d pillar %d, expected year %d pillar %d" % (k, y, n, y2, k2, tot // 12, (k + n) % 60)

    r = run_kernel(eng, "11.g/B/sixty-month-next", "11.g", "year 1..9998, every month pillar, |n| <= 10^5 with the target year in 0..9999", build, None, replay)
    return _finish(r, holder["ctx"]) if "ctx" in holder else r


# ------------------------------------------------------------------------------------------------ month nine star (17.d)
def k_month_nine_star(eng):
    holder = {}

    def build(eng):
        fields = struct_fields(os.path.join(REPO, "src/tyme/lunar.rs"), "LunarMonth")
        ix = {n: k for k, n in enumerate(fields)}
        yfields = struct_fields(os.path.join(REPO, "src/tyme/lunar.rs"), "LunarYear")
        fn = M.find_fn(eng.fns, "get_nine_star", "&LunarMonth")
        ctx = _ctx(eng, {"LunarYear::get_sixty_cycle": ("get_sixty_cycle", "&LunarYear", None), "LunarMonth::get_sixty_cycle": ("get_sixty_cycle", "&LunarMonth", None)})
        rec = Rec(ctx, "self", "LunarMonth")
        yrec = rec.field(ix["year"], "LunarYear")
        year = yrec.field(yfields.index("year"), "isize")
        idx = rec.field(ix["index_in_year"], "usize")
        holder.update(ctx=ctx, year=year, idx=idx)
        paths = ctx.run(fn, [("refrec", rec)])
        pre = ["(<= (- 1) %s 9999)" % year.s, "(<= 0 %s 12)" % idx.s]

        def shape(p):
            if not (isinstance(p.ret, Obj) and p.ret.kind == "NineStar"):
                return "result is not a modelled nine star"
            return None

        def posts(p):
            yb = "(mod (- %s 4) 12)" % year.s
            # first month (寅) star number: 8 for 子卯午酉 years, 5 for 丑辰未戌, 2 for 寅巳申亥; one less each month
            start = "(ite (= (mod %s 3) 0) 8 (ite (= (mod %s 3) 1) 5 2))" % (yb, yb)
            pos = "(mod %s 12)" % idx.s
            return [("star", "(= %s (mod (- (- %s 1) %s) 9))" % (p.ret.idx.s, start, pos))]
        return ctx, paths, pre, posts, shape

    from .almanac import _scan_replay
    r = run_kernel(eng, "17.d/B/month-nine-star", "17.d", "every year -1..9999, every index in year 0..12", build, None, _scan_replay(9, "month nine star rule"))
    return _finish(r, holder["ctx"]) if "ctx" in holder else r


# ------------------------------------------------------------------------------------------------ day view: when the pillars switch (08.d)
def k_day_view(eng, instant=False):
    """instant=True: the same for SixtyCycleHour::from_solar_time with instants instead of days (12.c: order of instants), plus: the day
    pillar it reports is the next day's from 23:00 and the hour pillar obeys Five Rats on that rolled day pillar.
    SixtyCycleDay::from_solar_day: the year pillar is that of the civil year from the Lichun DAY on (of the previous year before it), the
    month pillar is the Yin month's pillar of the civil year advanced by one per Jie passed since Lichun, the day pillar is the lunar day's.
    Days are day numbers (C01), the date's term and its day are given (C06), the lunar year of the date is the civil year or the one before
    (contract: lunar New Year falls between the two; data), the first lunar month's pillar obeys Five Tigers (08.b)."""
    from .seasons import DayV, TermV, TJDV, install
    holder = {}

    def build(eng):
        fn = None
        for name, fl in eng.fns.items():
            for f in fl:
                if not instant and name.endswith("::from_solar_day") and f.ret == "SixtyCycleDay":
                    fn = f
                if instant and name.endswith("::from_solar_time") and f.ret == "SixtyCycleHour":
                    fn = f
        if fn is None:
            raise Unsupported("entry function not found")
        ctx = _ctx(eng, {})
        rec = Rec(ctx, "solar_day" if not instant else "solar_time", "SolarDay" if not instant else "SolarTime")
        O = ctx.fresh_value("day_number" if not instant else "instant_in_seconds", "isize")
        sy = ctx.fresh_value("civil_year", "isize")
        SP = ctx.fresh_value("lichun_day" if not instant else "lichun_instant", "isize")
        hour = ctx.fresh_value("hour", "usize")
        hp = ctx.fresh_value("lunar_hour_pillar", "usize")
        ly = ctx.fresh_value("lunar_year_of_the_date", "isize")
        ti = ctx.fresh_value("term_index", "usize")
        Dt = ctx.fresh_value("term_day", "isize")
        FM = ctx.fresh_value("first_month_pillar", "usize")
        dp = ctx.fresh_value("day_pillar", "usize")
        holder.update(ctx=ctx)
        sym = TermV("sym", 0, sym={"index": ti, "day": Dt})

        def termday(ykey, idx):
            if ykey == sy.s and idx == 3:
                return SP
            raise Unsupported("unexpected term (%s, %d)" % (ykey, idx))
        install(ctx, rec, O, sy, termday, sym_term=sym)
        model = ctx.model
        base = model.call

        class LY:
            def __init__(self, t):
                self.t = t

        def call(c, fr, callee, args, path):
            a = [model.deref(c, x) for x in args]
            if callee == "LunarMonth::get_lunar_year":
                return True, LY(ly)
            if callee == "LunarYear::get_year" and a and isinstance(a[0], LY):
                return True, a[0].t
            if callee == "<LunarYear as Tyme>::next" and isinstance(a[0], LY) and isinstance(a[1], T):
                return True, LY(T("(+ %s %s)" % (a[0].t.s, a[1].s), "Int"))
            if callee == "LunarMonth::get_sixty_cycle":
                return True, Obj("SixtyCycle", FM)
            if callee == "LunarDay::get_sixty_cycle":
                # dp is the pillar of the lunar day OF THIS DATE (02.c + 07.c); any other lunar day has a pillar nothing is known about
                if a and isinstance(a[0], Rec) and a[0].name == "lunar_day_of_this_date":
                    return True, Obj("SixtyCycle", dp)
                other = c.fresh_value("pillar_of_some_other_lunar_day", "usize")
                path.pc.append(T("(<= 0 %s 59)" % other.s, "Bool"))
                return True, Obj("SixtyCycle", other)
            if callee == "SolarDay::get_lunar_day":
                return True, Rec(c, "lunar_day_of_this_date" if (a and (a[0] is rec or (isinstance(a[0], Rec) and a[0].name == "the_solar_day"))) else "lunar_day")
            if callee == "LunarHour::get_lunar_day":
                return True, Rec(c, "lunar_day_of_this_date" if (a and isinstance(a[0], Rec) and a[0].name == "lunar_hour_of_this_instant") else "lunar_day")
            if callee == "SolarTime::get_lunar_hour":
                return True, Rec(c, "lunar_hour_of_this_instant" if (a and a[0] is rec) else "lunar_hour")
            if callee == "LunarHour::get_sixty_cycle":
                return True, Obj("SixtyCycle", hp)
            if callee == "SolarTime::get_hour" and a and a[0] is rec:
                return True, hour
            if callee == "SolarTime::get_solar_day" and a and a[0] is rec:
                return True, Rec(c, "the_solar_day")
            return base(c, fr, callee, args, path)
        model.call = call
        paths = ctx.run(fn, [rec])
        ys = "(mod (- %s 4) 10)" % sy.s
        pre = ["(<= 1 %s 9998)" % sy.s, "(or (= %s %s) (= %s (- %s 1)))" % (ly.s, sy.s, ly.s, sy.s), "(<= 0 %s 23)" % ti.s, "(<= 0 (- %s %s) 16)" % (O.s, Dt.s),
               "(<= 0 %s 59)" % dp.s, "(<= 0 %s 59)" % FM.s, "(= (mod %s 12) 2)" % FM.s, "(= (mod %s 10) (mod (+ (* 2 (mod %s 5)) 2) 10))" % (FM.s, ys),
               # Lichun is the 4th term of the term year; terms 3.. of the civil year come on or after it, terms 0..2 are either before it (January) or after the following Jie chain (December)
               "(=> (>= %s 3) (>= %s %s))" % (ti.s, Dt.s, SP.s), "(=> (and (< %s 3) (< %s %s)) (< %s %s))" % (ti.s, Dt.s, SP.s, O.s, SP.s),
               "(=> (>= %s %s) (>= %s %s))" % (Dt.s, SP.s, O.s, SP.s)]
        if instant:
            # a term lasts up to 16 days in seconds; the lunar hour's pillar obeys 09.a w.r.t. the day pillar and the hour
            pre[3] = "(<= 0 (- %s %s) 1382400)" % (O.s, Dt.s)
            hb = "(mod (div (+ %s 1) 2) 12)" % hour.s
            rolled = "(ite (>= %s 23) (mod (+ %s 1) 60) %s)" % (hour.s, dp.s, dp.s)
            pre += ["(<= 0 %s 23)" % hour.s, "(<= 0 %s 59)" % hp.s, "(= (mod %s 12) %s)" % (hp.s, hb),
                    "(= (mod %s 10) (mod (+ (* 2 (mod (mod %s 10) 5)) %s) 10))" % (hp.s, rolled, hb)]

        def shape(p):
            r = p.ret
            if instant:
                if not (isinstance(r, Rec) and hasattr(r, "named") and "day" in r.named and "hour" in r.named):
                    return "result is not a SixtyCycleHour aggregate"
                holder["hour_field"] = r.named["hour"]
                r = r.named["day"]
                p.day_rec = r
            else:
                p.day_rec = r
            r = p.day_rec
            if not (isinstance(r, Rec) and hasattr(r, "named") and "month" in r.named and "day" in r.named):
                return "result is not a SixtyCycleDay aggregate"
            m = r.named["month"]
            if not (isinstance(m, Rec) and hasattr(m, "named") and "year" in m.named and "month" in m.named):
                return "month is not a SixtyCycleMonth aggregate"
            yc = [c for c in p.calls if c[0] == "SixtyCycleYear::from_year" and c[2] is m.named["year"]]
            if len(yc) != 1:
                return "the year is not built by SixtyCycleYear::from_year"
            try:
                _pillar_idx(m.named["month"])
                _pillar_idx(r.named["day"])
                if instant:
                    _pillar_idx(p.ret.named["hour"])
            except Unsupported as e:
                return str(e)
            return None

        def posts(p):
            dr = p.ret.named["day"] if instant else p.ret
            m = dr.named["month"]
            yarg = [c for c in p.calls if c[0] == "SixtyCycleYear::from_year" and c[2] is m.named["year"]][0][1][0].s
            mp = _pillar_idx(m.named["month"]).s
            delta = "(ite (and (< %s 3) (> %s %s)) (+ %s 21) (- %s 3))" % (ti.s, Dt.s, SP.s, ti.s, ti.s)
            return [("year-turns-on-the-lichun-day", "(= %s (ite (>= %s %s) %s (- %s 1)))" % (yarg, O.s, SP.s, sy.s, sy.s)),
                    ("month-advances-at-each-jie", "(= %s (mod (+ %s (div %s 2)) 60))" % (mp, FM.s, delta)),
                    ] + ([("day", "(= %s %s)" % (_pillar_idx(dr.named["day"]).s, dp.s))] if not instant else
                         [("day-rolls-at-23", "(= %s (ite (= %s 23) (mod (+ %s 1) 60) %s))" % (_pillar_idx(dr.named["day"]).s, hour.s, dp.s, dp.s)),
                          ("hour-branch", "(= (mod %s 12) (mod (div (+ %s 1) 2) 12))" % (_pillar_idx(p.ret.named["hour"]).s, hour.s)),
                          ("hour-stem-five-rats-on-the-rolled-day", "(= (mod %s 10) (mod (+ (* 2 (mod (mod (ite (>= %s 23) (mod (+ %s 1) 60) %s) 10) 5)) (mod (div (+ %s 1) 2) 12)) 10))" % (
                              _pillar_idx(p.ret.named["hour"]).s, hour.s, dp.s, dp.s, hour.s))])
        return ctx, paths, pre, posts, shape

    def replay(eng, model):
        nat = eng.native("day_view_scan", 1 if instant else 0)
        if nat in ("NONE", "PANIC", "UNKNOWN", ""):
            return nat == "PANIC", "native scan: " + (nat or "no output")
        return True, ("instant view" if instant else "day view") + " pillars are not the ones the rule gives: " + nat

    if instant:
        r = run_kernel(eng, "09.c/B/instant-view", "09.c", "every instant, every Lichun instant, hour 0..23, all day pillars; lunar year = civil year or the one before; the instant's term as given", build, None, replay)
    else:
        r = run_kernel(eng, "08.d/B/day-view", "08.d", "every date, every Lichun day, lunar year of the date = civil year or the one before, the date's term and its day as given", build, None, replay)
    return _finish(r, holder["ctx"]) if "ctx" in holder else r


# ------------------------------------------------------------------------------------------------ eight characters = the four pillars (09.d)
def k_compose(eng, which):
    """which: instant (SixtyCycleHour::get_eight_char) | sect2 (LunarSect2EightCharProvider) | default (DefaultEightCharProvider) | getter-year/month/day/hour"""
    holder = {}

    def build(eng):
        y, m, d, h, own = (None,) * 5
        ctx = _ctx(eng, {"EightChar::from_sixty_cycle": ("from_sixty_cycle", "SixtyCycle", "EightChar")})
        holder.update(ctx=ctx)
        y, m, d, h, own, dvy, dvm = [ctx.fresh_value(n, "usize") for n in ("year_pillar", "month_pillar", "rolled_day_pillar", "hour_pillar", "own_day_pillar",
                                                                             "day_level_year_pillar", "day_level_month_pillar")]
        pre = ["(<= 0 %s 59)" % v.s for v in (y, m, d, h, own, dvy, dvm)]
        view = Rec(ctx, "instant_view", "SixtyCycleHour")
        vf = struct_fields(os.path.join(REPO, "src/tyme/sixtycycle.rs"), "SixtyCycleHour")
        view_day_k = vf.index("day")
        view.fields[view_day_k] = Rec(ctx, "instant_day", "SixtyCycleDay")
        view.fields[vf.index("hour")] = Obj("SixtyCycle", h)
        model = ctx.model
        base = model.call
        want = {"year": y, "month": m, "day": d, "hour": h}

        def call(c, fr, callee, args, path):
            a = [model.deref(c, x) for x in args]
            if a and a[0] is view:
                r = {"SixtyCycleHour::get_year": y, "SixtyCycleHour::get_month": m, "SixtyCycleHour::get_day": d, "SixtyCycleHour::get_sixty_cycle": h}.get(callee)
                if r is not None:
                    return True, Obj("SixtyCycle", r)
            # the instant view holds a hand-built day record carrying the INSTANT-level year / month pillars and the rolled day pillar;
            # a day-level view obtained from the civil day is a different object with its own (arbitrary) year / month / day pillars
            if a and isinstance(a[0], Rec) and a[0].name in ("instant_day", "day_level_view"):
                src = {"instant_day": (y, m, d), "day_level_view": (dvy, dvm, own)}[a[0].name]
                r = {"SixtyCycleDay::get_year": src[0], "SixtyCycleDay::get_month": src[1], "SixtyCycleDay::get_sixty_cycle": src[2]}.get(callee)
                if r is not None:
                    return True, Obj("SixtyCycle", r)
                if callee == "SixtyCycleDay::get_solar_day":
                    return True, Rec(c, "civil_day", "SolarDay")
            # another instant (the lunar hour's instant stepped by some seconds) has a view of its own, with pillars nothing is known about
            if callee == "LunarHour::get_hour":
                hh = c.fresh_value("clock_hour", "usize")
                path.pc.append(T("(<= 0 %s 23)" % hh.s, "Bool"))
                return True, hh
            if callee == "LunarHour::get_solar_time":
                return True, Rec(c, "civil_instant", "SolarTime")
            if callee == "<SolarTime as Tyme>::next" and a and isinstance(a[0], Rec) and a[0].name == "civil_instant" and isinstance(a[1], T) and a[1].c != 0:
                return True, Rec(c, "another_instant", "SolarTime")
            if callee in ("SolarTime::get_sixty_cycle_hour",) and a and isinstance(a[0], Rec) and a[0].name == "another_instant":
                return True, Rec(c, "view_of_another_instant", "SixtyCycleHour")
            if a and isinstance(a[0], Rec) and a[0].name == "view_of_another_instant" and callee in ("SixtyCycleHour::get_year", "SixtyCycleHour::get_month", "SixtyCycleHour::get_day", "SixtyCycleHour::get_sixty_cycle"):
                v = c.fresh_value("pillar_of_another_instant", "usize")
                path.pc.append(T("(<= 0 %s 59)" % v.s, "Bool"))
                return True, Obj("SixtyCycle", v)
            if a and a[0] is view and callee == "SixtyCycleHour::get_sixty_cycle_day":
                return True, view.fields[view_day_k]
            if a and a[0] is view and callee == "SixtyCycleHour::get_solar_time":
                return True, Rec(c, "civil_instant", "SolarTime")
            if callee == "SolarTime::get_solar_day" and isinstance(a[0], Rec) and a[0].name == "civil_instant":
                return True, Rec(c, "civil_day", "SolarDay")
            if callee == "SolarDay::get_sixty_cycle_day" and isinstance(a[0], Rec) and a[0].name == "civil_day":
                return True, Rec(c, "day_level_view", "SixtyCycleDay")
            if callee == "SolarTime::get_sixty_cycle_hour" and isinstance(a[0], Rec) and a[0].name == "civil_instant":
                return True, view
            if callee == "LunarHour::get_sixty_cycle_hour":
                return True, view
            if callee == "LunarHour::get_lunar_day":
                return True, Rec(c, "own_lunar_day", "LunarDay")
            if callee == "LunarDay::get_sixty_cycle" and isinstance(a[0], Rec) and a[0].name == "own_lunar_day":
                return True, Obj("SixtyCycle", own)
            return base(c, fr, callee, args, path)
        model.call = call
        if which == "instant":
            fn = M.find_fn(eng.fns, "get_eight_char", "&SixtyCycleHour")
            paths = ctx.run(fn, [("refrec", view)])
        elif which in ("sect2", "default"):
            prov = {"sect2": "LunarSect2EightCharProvider", "default": "DefaultEightCharProvider"}[which]
            fn = M.find_fn(eng.fns, "get_eight_char", "&" + prov)
            if which == "default":
                ctx.inline_map["SixtyCycleHour::get_eight_char"] = M.find_fn(eng.fns, "get_eight_char", "&SixtyCycleHour")
                ctx.inline = set(ctx.inline_map)
            else:
                want["day"] = own
            paths = ctx.run(fn, [("refrec", Rec(ctx, "provider", prov)), Rec(ctx, "lunar_hour", "LunarHour")])
        else:
            f = which.split("-")[1]
            fn = M.find_fn(eng.fns, "get_" + f, "&EightChar")
            fields = struct_fields(os.path.join(REPO, "src/tyme/eightchar/mod.rs"), "EightChar")
            rec = Rec(ctx, "self", "EightChar")
            for k, n in enumerate(fields):
                rec.fields[k] = Obj("SixtyCycle", want[n])
            paths = ctx.run(fn, [("refrec", rec)])
            want = {"": want[f]}

        def shape(p):
            r = p.ret
            if which.startswith("getter"):
                return None if isinstance(r, Obj) and r.kind == "SixtyCycle" else "result is not a pillar"
            if not (isinstance(r, Rec) and getattr(r, "named", None) and set(r.named) == set(want)):
                return "result is not an EightChar record"
            return None if all(isinstance(v, Obj) and v.kind == "SixtyCycle" for v in r.named.values()) else "a stored pillar is not a modelled pillar"

        def posts(p):
            if which.startswith("getter"):
                return [("returns-its-pillar", "(= %s %s)" % (p.ret.idx.s, want[""].s))]
            return [(k, "(= %s %s)" % (p.ret.named[k].idx.s, want[k].s)) for k in ("year", "month", "day", "hour")]
        return ctx, paths, pre, posts, shape

    def replay(eng, model):
        nat = eng.native("compose_scan")
        if nat in ("NONE", "PANIC", "UNKNOWN", ""):
            return nat == "PANIC", "native scan: " + (nat or "no output")
        return True, "eight characters differ from the four pillars of the instant: " + nat
    r = run_kernel(eng, "09.d/B/compose/%s" % which, "09.d", "all four pillars arbitrary (0..59 each)", build, None, replay)
    return _finish(r, holder["ctx"]) if "ctx" in holder else r


# ------------------------------------------------------------------------------------------------ stepping the day / instant views (11.j)
def k_view_next(eng, which):
    """SixtyCycleDay::next(n) is the view of the civil day n days later; SixtyCycleHour::next(n) the view of the instant n seconds later.
    Every component of a view is a function of its day / instant: component f of the view at offset t is PartOf(f, t); the result must be
    the view at offset n in every component (whether it is built by the constructor or assembled by hand)."""
    owner, field, base_ty, ctor = {"day": ("SixtyCycleDay", "solar_day", "SolarDay", "from_solar_day"), "hour": ("SixtyCycleHour", "solar_time", "SolarTime", "from_solar_time")}[which]
    holder = {}

    class Stepped:
        def __init__(self, t):
            self.t = t

    class PartOf:
        def __init__(self, f, t):
            self.f, self.t = f, t

    def build(eng):
        fields = struct_fields(os.path.join(REPO, "src/tyme/sixtycycle.rs"), owner)
        fn = M.find_fn(eng.fns, "next", "&" + owner, 2)
        ctx = _ctx(eng, {})
        holder.update(ctx=ctx)
        rec = Rec(ctx, "self", owner)
        inner = Rec(ctx, "self." + field, base_ty)
        for k, f in enumerate(fields):
            rec.fields[k] = inner if f == field else PartOf(f, I(0))
        n = ctx.fresh_value("n", "isize")
        model = ctx.model
        base = model.call

        def view_at(c, t):
            r = Rec(c, "view", owner)
            r.named = {f: (Stepped(t) if f == field else PartOf(f, t)) for f in fields}
            return r

        def call(c, fr, callee, args, path):
            a = [model.deref(c, x) for x in args]
            if callee == "<%s as Tyme>::next" % base_ty and a[0] is inner and isinstance(a[1], T):
                return True, Stepped(a[1])
            if callee == "%s::%s" % (owner, ctor) and isinstance(a[0], Stepped):
                return True, view_at(c, a[0].t)
            if callee.endswith(" as Clone>::clone") and isinstance(a[0], (PartOf, Stepped)):
                return True, a[0]
            if which == "day" and callee == "<SixtyCycle as Tyme>::next" and isinstance(a[0], PartOf) and a[0].f == "day" and isinstance(a[1], T):
                return True, PartOf("day", T("(+ %s %s)" % (a[0].t.s, a[1].s), "Int"))      # the day pillar advances one per day (07.c, A-index)
            return base(c, fr, callee, args, path)
        model.call = call
        paths = ctx.run(fn, [("refrec", rec), n])

        def comps(p):
            r = p.ret
            if r is rec:
                return {f: (Stepped(I(0)) if f == field else PartOf(f, I(0))) for f in fields}
            named = getattr(r, "named", None)
            if not isinstance(r, Rec) or not named or set(named) != set(fields):
                return None
            return named

        def shape(p):
            c = comps(p)
            if c is None:
                return "result is not a %s record" % owner
            for f, v in c.items():
                if f == field and not isinstance(v, Stepped):
                    return "the result's %s is not this view's %s stepped" % (field, base_ty)
                if f != field and not (isinstance(v, PartOf) and v.f == f):
                    return "component %s of the result is not a component of a view" % f
            return None

        def posts(p):
            return [("%s-at-n" % f, "(= %s %s)" % (v.t.s, n.s)) for f, v in comps(p).items()]
        return ctx, paths, ["(<= (- 1000000000000) %s 1000000000000)" % n.s], posts, shape

    def replay(eng, model):
        nat = eng.native("view_next_scan", 0 if which == "day" else 1)
        if nat in ("NONE", "PANIC", "UNKNOWN", ""):
            return nat == "PANIC", "native scan: " + (nat or "no output")
        return True, "stepping the view is not stepping its %s: %s" % (base_ty, nat)

    r = run_kernel(eng, "11.j/B/%s-view-next" % which, "11.j", "every view, |n| <= 10^12", build, None, replay)
    return _finish(r, holder["ctx"]) if "ctx" in holder else r


# ------------------------------------------------------------------------------------------------ routes to the day pillar (07.d)
def k_pillar_route(eng, which):
    """which = getter: SixtyCycleDay::get_sixty_cycle returns the stored day pillar (the one from_solar_day stored: 08.d 'day' clause);
    which = civil: SolarDay::get_sixty_cycle_day is the view built from this very day"""
    holder = {}

    def build(eng):
        ctx = _ctx(eng, {})
        holder.update(ctx=ctx)
        model = ctx.model
        base = model.call
        if which == "getter":
            fields = struct_fields(os.path.join(REPO, "src/tyme/sixtycycle.rs"), "SixtyCycleDay")
            fn = M.find_fn(eng.fns, "get_sixty_cycle", "&SixtyCycleDay")
            rec = Rec(ctx, "self", "SixtyCycleDay")
            dp = ctx.fresh_value("stored_day_pillar", "usize")
            rec.fields[fields.index("day")] = Obj("SixtyCycle", dp)
            paths = ctx.run(fn, [("refrec", rec)])
            return ctx, paths, ["(<= 0 %s 59)" % dp.s], (lambda p: [("returns-the-stored-pillar", "(= %s %s)" % (p.ret.idx.s, dp.s))]), \
                (lambda p: None if isinstance(p.ret, Obj) and p.ret.kind == "SixtyCycle" else "result is not a pillar")
        fn = M.find_fn(eng.fns, "get_sixty_cycle_day", "&SolarDay")
        rec = Rec(ctx, "self", "SolarDay")
        built = {}

        def call(c, fr, callee, args, path):
            a = [model.deref(c, x) for x in args]
            if callee == "SixtyCycleDay::from_solar_day":
                r = Rec(c, "view", "SixtyCycleDay")
                built[id(r)] = a[0]
                return True, r
            return base(c, fr, callee, args, path)
        model.call = call
        paths = ctx.run(fn, [("refrec", rec)])

        def shape(p):
            return None if id(p.ret) in built and built[id(p.ret)] is rec else "result is not the view built from this very day"
        return ctx, paths, [], (lambda p: []), shape

    r = run_kernel(eng, "07.d/B/route-%s" % which, "07.d", "every view / every day", build, None, None)
    return _finish(r, holder["ctx"]) if "ctx" in holder else r
