"""Engine B kernels for the child-limit arithmetic (C16)."""
import os
from . import mir as M
from .mir import T, I, Rec, Ref, Opaque, Unsupported
from .kernels import run_kernel, struct_fields, REPO
from .pillars import _ctx, _finish


def k_ratio(eng, provider):
    """provider: Default | China95 | LunarSect2 — seconds between birth and the governing Jie -> (years, months, days, hours, minutes)"""
    holder = {}
    line = {"Default": "&DefaultChildLimitProvider", "China95": "&China95ChildLimitProvider", "LunarSect2": "&LunarSect2ChildLimitProvider"}[provider]

    def build(eng):
        fn = M.find_fn(eng.fns, "get_info", line)
        ctx = _ctx(eng, {})
        rec = Rec(ctx, "self", provider)
        birth = Rec(ctx, "birth", "SolarTime")
        term = Rec(ctx, "term", "SolarTerm")
        holder.update(ctx=ctx)
        paths = ctx.run(fn, [("refrec", rec), birth, term])
        pre = []
        for p in paths:
            for c in p.calls:
                if c[0] == "SolarTime::subtract" and isinstance(c[2], T):
                    # the governing Jie lies at most 32 days from the birth instant (ENV-J); sign either way
                    pre.append("(and (<= (- 2764800) %s) (<= %s 2764800))" % (c[2].s, c[2].s))

        def shape(p):
            names = [c[0] for c in p.calls]
            if names[:3] != ["SolarTerm::get_julian_day", "JulianDay::get_solar_time", "SolarTime::subtract"] or names[-1] != "AbstractChildLimitProvider::next":
                return "unexpected call sequence %s" % names
            sub = p.calls[2]
            if sub[1][1] is not birth:
                return "the difference is not taken against the birth instant"
            nx = p.calls[-1]
            if nx[1][1] is not birth:
                return "the addition does not start from the birth instant"
            if p.ret is not nx[2]:
                return "result is not the computed limit"
            return None

        def posts(p):
            S = p.calls[2][2].s
            a = "(ite (< %s 0) (- %s) %s)" % (S, S, S)
            y, mo, d, h, mi, se = [x.s for x in p.calls[-1][1][2:8]]
            if provider == "Default":
                return [("ratio", "(= (+ (* 259200 %s) (* 21600 %s) (* 720 %s) (* 30 %s) (div %s 2)) %s)" % (y, mo, d, h, mi, a)),
                        ("ranges", "(and (<= 0 %s) (<= 0 %s 11) (<= 0 %s 29) (<= 0 %s 23) (<= 0 %s 59) (= (mod %s 2) 0) (= %s 0))" % (y, mo, d, h, mi, mi, se)),
                        ("at-most-eleven-years", "(<= %s 10)" % y)]
            mins = "(div %s 60)" % a
            if provider == "China95":
                return [("ratio", "(and (<= (+ (* 4320 %s) (* 360 %s) (* 12 %s)) %s) (< %s (+ (* 4320 %s) (* 360 %s) (* 12 %s) 12)))" % (y, mo, d, mins, mins, y, mo, d)),
                        ("ranges", "(and (<= 0 %s) (<= 0 %s 11) (<= 0 %s 29) (= %s 0) (= %s 0) (= %s 0))" % (y, mo, d, h, mi, se))]
            return [("ratio", "(= (+ (* 4320 %s) (* 360 %s) (* 12 %s) (div %s 2)) %s)" % (y, mo, d, h, mins)),
                    ("ranges", "(and (<= 0 %s) (<= 0 %s 11) (<= 0 %s 29) (<= 0 %s 23) (= (mod %s 2) 0) (= %s 0) (= %s 0))" % (y, mo, d, h, h, mi, se))]
        return ctx, paths, pre, posts, shape

    def replay(eng, model):
        try:
            S = [int(v) for k, v in model.items() if "SolarTime::subtract" in k][0]
        except Exception as e:
            return False, "model incomplete %r" % e
        nat = eng.native("child_ratio", {"Default": 0, "China95": 1, "LunarSect2": 2}[provider], S)
        if nat == "PANIC":
            return True, "get_info panics for a difference of %d s" % S
        y, mo, d, h, mi = [int(t) for t in nat.split()]
        a = abs(S)
        if provider == "Default":
            ok = y * 259200 + mo * 21600 + d * 720 + h * 30 + mi // 2 == a and mo < 12 and d < 30 and h < 24 and mi < 60 and mi % 2 == 0
        elif provider == "China95":
            ok = 0 <= a // 60 - (y * 4320 + mo * 360 + d * 12) < 12 and mo < 12 and d < 30 and h == 0 and mi == 0
        else:
            ok = y * 4320 + mo * 360 + d * 12 + h // 2 == a // 60 and mo < 12 and d < 30 and h < 24 and h % 2 == 0 and mi == 0
        return (not ok), "%s limit for a difference of %d s: %d y %d m %d d %d h %d min" % (provider, S, y, mo, d, h, mi)

    r = run_kernel(eng, "16.a/B/ratio/%s" % provider, "16.a", "every difference |S| <= 32 days between birth and the governing Jie instant", build, None, replay)
    return _finish(r, holder["ctx"]) if "ctx" in holder else r


def k_addition(eng):
    """AbstractChildLimitProvider::next: carry of seconds/minutes/hours into days and of days through month lengths (loop unrolled,
    bound proved).  Months are modelled by their ordinal 12*year + month - 1 (SolarMonth::from_ym / next / get_year / get_month: C11
    11.b), their lengths are arbitrary 21..31 (C01 01.h): the specification only looks at what reaches SolarTime::from_ymd_hms."""
    holder = {}

    def build(eng):
        from .objmodel import Obj
        fn = M.find_fn(eng.fns, "next", "&AbstractChildLimitProvider")
        ctx = _ctx(eng, {})
        ctx.max_unroll = 5
        rec = Rec(ctx, "self", "AbstractChildLimitProvider")
        birth = Rec(ctx, "birth", "SolarTime")
        adds = [ctx.fresh_value(n, "usize") for n in ("add_year", "add_month", "add_day", "add_hour", "add_minute", "add_second")]
        B = {k: ctx.fresh_value("birth." + k, ty) for k, ty in (("year", "isize"), ("month", "usize"), ("day", "usize"), ("hour", "usize"), ("minute", "usize"), ("second", "usize"))}
        holder.update(ctx=ctx)
        model = ctx.model
        base = model.call
        dcs_all = []

        def call(c, fr, callee, args, path):
            a = [model.deref(c, x) for x in args]
            g = {"SolarTime::get_year": "year", "SolarTime::get_month": "month", "SolarTime::get_day": "day", "SolarTime::get_hour": "hour", "SolarTime::get_minute": "minute", "SolarTime::get_second": "second"}
            if callee in g and a and a[0] is birth:
                return True, B[g[callee]]
            if callee == "SolarMonth::from_ym" and isinstance(a[0], T) and isinstance(a[1], T):
                return True, Obj("SolarMonth", T("(+ (* 12 %s) (- %s 1))" % (a[0].s, a[1].s), "Int"))
            if a and isinstance(a[0], Obj) and a[0].kind == "SolarMonth":
                t = a[0].idx
                if callee == "<SolarMonth as Tyme>::next" and isinstance(a[1], T):
                    return True, Obj("SolarMonth", T("(+ %s %s)" % (t.s, a[1].s), "Int"))
                if callee == "SolarMonth::get_year":
                    return True, T("(div %s 12)" % t.s, "Int")
                if callee == "SolarMonth::get_month":
                    return True, T("(+ (mod %s 12) 1)" % t.s, "Int")
                if callee == "SolarMonth::get_day_count":
                    v = c.fresh_value("month_length", "usize")
                    dcs_all.append(v)
                    return True, v
            return base(c, fr, callee, args, path)
        model.call = call
        paths = ctx.run(fn, [("refrec", rec), birth] + adds)
        ay, am, ad, ah, ami, asec = [x.s for x in adds]
        pre = ["(<= 0 %s 12)" % ay, "(<= 0 %s 11)" % am, "(<= 0 %s 30)" % ad, "(<= 0 %s 23)" % ah, "(<= 0 %s 59)" % ami, "(<= 0 %s 59)" % asec,
               "(<= 1 %s 9980)" % B["year"].s, "(<= 1 %s 12)" % B["month"].s, "(<= 1 %s 31)" % B["day"].s, "(<= 0 %s 23)" % B["hour"].s, "(<= 0 %s 59)" % B["minute"].s, "(<= 0 %s 59)" % B["second"].s]
        for v in dcs_all:
            pre.append("(<= 21 %s 31)" % v.s)

        def shape(p):
            if getattr(p, "cut", False):
                return None
            if not p.calls or p.calls[-1][0] != "SolarTime::from_ymd_hms":
                return "the result is not built by SolarTime::from_ymd_hms"
            if not [c for c in p.calls if c[0] == "SolarMonth::get_day_count"]:
                return "no month length is consulted"
            return None

        def posts(p):
            if getattr(p, "cut", False):
                return []
            ctor = p.calls[-1]
            Y, Mo, d2, h2, mi2, s2 = [x.s for x in ctor[1][0:6]]
            dcs = [c[2].s for c in p.calls if c[0] == "SolarMonth::get_day_count"]
            consumed = dcs[:-1]
            tot = "(+ (* 86400 (+ %s %s)) (* 3600 (+ %s %s)) (* 60 (+ %s %s)) (+ %s %s))" % (B["day"].s, ad, B["hour"].s, ah, B["minute"].s, ami, B["second"].s, asec)
            dsum = "(+ %s %s)" % (d2, " ".join(consumed)) if consumed else d2
            start = "(+ (* 12 (+ %s %s)) (- %s 1) %s)" % (B["year"].s, ay, B["month"].s, am)
            return [("clock", "(and (<= 0 %s 23) (<= 0 %s 59) (<= 0 %s 59))" % (h2, mi2, s2)),
                    ("total", "(= (+ (* 86400 %s) (* 3600 %s) (* 60 %s) %s) %s)" % (dsum, h2, mi2, s2, tot)),
                    ("day-in-month", "(and (<= 1 %s) (<= %s %s))" % (d2, d2, dcs[-1])),
                    ("end-month", "(and (<= 1 %s 12) (= (+ (* 12 %s) (- %s 1)) (+ %s %d)))" % (Mo, Y, Mo, start, len(consumed)))]
        return ctx, paths, pre, posts, shape

    def replay(eng, model):
        # the additions are not free inputs of the public API: confirm on real births (3 years, 3 clock times a day, both genders)
        nat = eng.native("child_add_scan", 1990, 3)
        if nat == "NONE":
            return False, "no birth 1990-1992 shows a wrong calendar addition"
        return True, "ChildLimit end instant is not birth + counts: " + nat

    r = run_kernel(eng, "16.c/B/addition", "16.c", "birth clock/day any, additions up to 12 y, 11 m, 30 d, 23 h, 59 min, 59 s; month lengths any 21..31; month-carry loop unrolled 5 times with the bound proved",
                   build, None, replay)
    return _finish(r, holder["ctx"]) if "ctx" in holder else r


def k_direction(eng):
    """ChildLimit::from_solar_time: luck runs forward exactly for Yang-year men and Yin-year women; the Jie handed to the limit strategy is the
    next Jie after the birth instant if forward, the latest Jie at or before it if backward.  The instant's term is given by its number
    (C06's instant mapping); a term of the birth DAY (which can be one ahead of the instant's) is modelled as such, so using it is visible."""
    from .objmodel import Obj
    holder = {}

    class Trm:
        def __init__(self, t):
            self.t = t          # SMT Int term: term number (odd = Jie)

    def build(eng):
        fn = None
        for name, fl in eng.fns.items():
            for f in fl:
                if name.endswith("::from_solar_time") and f.ret == "ChildLimit":
                    fn = f
        if fn is None:
            raise Unsupported("ChildLimit::from_solar_time not found")
        ctx = _ctx(eng, {})
        birth = Rec(ctx, "birth", "SolarTime")
        man = ctx.fresh_value("gender_is_man", "bool")
        yp = ctx.fresh_value("year_pillar", "usize")
        ti = ctx.fresh_value("term_number_of_the_instant", "isize")
        ahead = ctx.fresh_value("day_term_is_one_ahead", "bool")
        holder.update(ctx=ctx)
        model = ctx.model
        base = model.call
        day_rec = Rec(ctx, "birth_day", "SolarDay")

        class YY:
            def __init__(self, stem):
                self.stem = stem

        def call(c, fr, callee, args, path):
            a = [model.deref(c, x) for x in args]
            if callee == "EightChar::get_year":
                return True, Obj("SixtyCycle", yp)
            if callee == "HeavenStem::get_yin_yang" and isinstance(a[0], Obj):
                return True, YY(a[0].idx)
            if callee == "<YinYang as PartialEq>::eq":
                yy = [x for x in a if isinstance(x, YY)]
                op = [x for x in a if isinstance(x, Opaque)]
                if len(yy) == 1 and len(op) == 1 and "YANG" in op[0].name:
                    return True, T("(= (mod %s 2) 0)" % yy[0].stem.s, "Bool")      # 19.a: even stems are Yang
                if len(yy) == 1 and len(op) == 1 and "YIN" in op[0].name:
                    return True, T("(= (mod %s 2) 1)" % yy[0].stem.s, "Bool")
            if callee == "<Gender as PartialEq>::eq":
                op = [x for x in a if isinstance(x, Opaque) and "Gender::" in x.name]
                if len(op) == 1 and op[0].name.endswith("Gender::MAN"):
                    return True, man
                if len(op) == 1 and op[0].name.endswith("Gender::WOMAN"):
                    return True, T("(not %s)" % man.s, "Bool")
            if callee == "SolarTime::get_term" and a[0] is birth:
                return True, Trm(ti)
            if callee == "SolarTime::get_solar_day" and a[0] is birth:
                return True, day_rec
            if callee == "SolarDay::get_term" and a[0] is day_rec:
                return True, Trm(T("(ite %s (+ %s 1) %s)" % (ahead.s, ti.s, ti.s), "Int"))
            if a and isinstance(a[0], Trm):
                if callee == "SolarTerm::is_jie":
                    return True, T("(= (mod %s 2) 1)" % a[0].t.s, "Bool")
                if callee == "SolarTerm::is_qi":
                    return True, T("(= (mod %s 2) 0)" % a[0].t.s, "Bool")
                if callee == "<SolarTerm as Tyme>::next" and isinstance(a[1], T):
                    return True, Trm(T("(+ %s %s)" % (a[0].t.s, a[1].s), "Int"))
                if callee.endswith("::clone"):
                    return True, a[0]
            return base(c, fr, callee, args, path)
        model.call = call
        gender = Opaque("gender-value")
        # the gender argument is compared through <Gender as PartialEq>::eq(const Gender::MAN, gender): the model keys on the constant
        paths = ctx.run(fn, [birth, gender])
        pre = ["(<= 0 %s 59)" % yp.s, "(<= 24 %s 239976)" % ti.s]

        def shape(p):
            gi = [c for c in p.calls if c[0].endswith("ChildLimitProvider>::get_info") or c[0].endswith("::get_info")]
            if len(gi) != 1:
                return "expected exactly one get_info call"
            if gi[0][1][1] is not birth:
                return "the limit is not computed from the birth instant"
            if not isinstance(model.deref(ctx, gi[0][1][2]), Trm):
                return "the term handed to the strategy is not derived from the birth's term"
            if not (isinstance(p.ret, Rec) and hasattr(p.ret, "named") and "forward" in p.ret.named):
                return "result is not a ChildLimit aggregate"
            return None

        def posts(p):
            gi = [c for c in p.calls if c[0].endswith("::get_info")][0]
            term = model.deref(ctx, gi[1][2]).t.s
            fwd = p.ret.named["forward"]
            yang = "(= (mod (mod %s 10) 2) 0)" % yp.s
            exp_fwd = "(= %s %s)" % (yang, man.s)
            prev_jie = "(ite (= (mod %s 2) 1) %s (- %s 1))" % (ti.s, ti.s, ti.s)
            return [("forward-for-yang-men-and-yin-women", "(= %s %s)" % (fwd.s, exp_fwd)),
                    ("governing-jie", "(= %s (ite %s (+ %s 2) %s))" % (term, exp_fwd, prev_jie, prev_jie))]
        return ctx, paths, pre, posts, shape

    def replay(eng, model):
        nat = eng.native("child_dir_scan")
        if nat in ("NONE", "PANIC", "UNKNOWN", ""):
            return nat == "PANIC", "native scan: " + (nat or "no output")
        return True, "direction / governing Jie rule violated: " + nat

    r = run_kernel(eng, "16.d/B/direction", "16.d", "all 60 year pillars x both genders x every term position of the birth instant", build, None, replay)
    return _finish(r, holder["ctx"]) if "ctx" in holder else r


def k_fortune(eng, which):
    """decade and yearly fortunes (16.e).  which: decade-pillar | decade-start-age | decade-end-age | decade-year | year-age | year-pillar | year-year"""
    from .objmodel import Obj
    holder = {}
    owner, method = {"decade-pillar": ("DecadeFortune", "get_sixty_cycle"), "decade-start-age": ("DecadeFortune", "get_start_age"), "decade-end-age": ("DecadeFortune", "get_end_age"),
                     "decade-year": ("DecadeFortune", "get_start_sixty_cycle_year"), "year-age": ("Fortune", "get_age"), "year-pillar": ("Fortune", "get_sixty_cycle"),
                     "year-year": ("Fortune", "get_sixty_cycle_year"), "decade-next": ("DecadeFortune", "next"), "year-next": ("Fortune", "next"),
                     "decade-start-fortune": ("DecadeFortune", "get_start_fortune")}[which]
    ctors = {"decade-next": "DecadeFortune", "year-next": "Fortune", "decade-start-fortune": "Fortune"}

    class YearObj:
        def __init__(self, t):
            self.t = t

    def build(eng):
        fields = struct_fields(os.path.join(REPO, "src/tyme/eightchar/mod.rs"), owner)
        fn = M.find_fn(eng.fns, method, "&" + owner, 2 if method == "next" else None)
        inl = {}
        if which in ctors:
            inl = {owner + "::get_index": ("get_index", "&" + owner, None), ctors[which] + "::from_child_limit": ("from_child_limit", "ChildLimit", ctors[which])}
        elif owner == "DecadeFortune":
            inl = {"DecadeFortune::get_start_age": ("get_start_age", "&DecadeFortune", None), "DecadeFortune::get_start_sixty_cycle_year": ("get_start_sixty_cycle_year", "&DecadeFortune", None)}
        else:
            inl = {"Fortune::get_age": ("get_age", "&Fortune", None)}
        ctx = _ctx(eng, inl)
        rec = Rec(ctx, "self", owner)
        index = rec.field(fields.index("index"), "isize")
        EY = ctx.fresh_value("year_the_limit_ends", "isize")
        SY = ctx.fresh_value("birth_year", "isize")
        mp = ctx.fresh_value("month_pillar", "usize")
        hp = ctx.fresh_value("hour_pillar", "usize")
        fwd = ctx.fresh_value("forward", "bool")
        holder.update(ctx=ctx)
        model = ctx.model
        base = model.call

        def call(c, fr, callee, args, path):
            a = [model.deref(c, x) for x in args]
            if callee == "ChildLimit::get_end_sixty_cycle_year":
                return True, YearObj(EY)
            if callee == "ChildLimit::get_start_sixty_cycle_year":
                return True, YearObj(SY)
            if a and isinstance(a[0], YearObj):
                if callee == "SixtyCycleYear::get_year":
                    return True, a[0].t
                if callee == "<SixtyCycleYear as Tyme>::next" and isinstance(a[1], T):
                    return True, YearObj(T("(+ %s %s)" % (a[0].t.s, a[1].s), "Int"))
            if callee == "ChildLimit::get_eight_char":
                return True, Rec(c, "eight_char")
            if callee == "EightChar::get_month":
                return True, Obj("SixtyCycle", mp)
            if callee == "EightChar::get_hour":
                return True, Obj("SixtyCycle", hp)
            if callee == "ChildLimit::is_forward":
                return True, fwd
            return base(c, fr, callee, args, path)
        model.call = call
        for extra in ("get_end_age", "get_start_age"):
            try:
                ctx.inline_map["ChildLimit::" + extra] = M.find_fn(eng.fns, extra, "&ChildLimit")
            except Exception:
                pass
        ctx.inline = set(ctx.inline_map)
        limit = rec.field(fields.index("child_limit"), "ChildLimit")
        n = ctx.fresh_value("n", "isize")
        paths = ctx.run(fn, [("refrec", rec)] + ([n] if method == "next" else []))
        pre = ["(<= (- 1000) %s 1000)" % n.s, "(<= 1 %s 9990)" % SY.s, "(<= 0 (- %s %s) 11)" % (EY.s, SY.s), "(<= (- 1) %s 200)" % index.s, "(<= 0 %s 59)" % mp.s, "(<= 0 %s 59)" % hp.s]
        virt = "(+ (- %s %s) 1)" % (EY.s, SY.s)       # virtual age (虚岁) in the year the limit ends

        def built(p):
            cl = [c for c in p.calls if c[0] == ctors[which] + "::new"]
            return cl[-1] if cl and p.ret is cl[-1][2] else None

        def shape(p):
            r = p.ret
            if which in ctors:
                c = built(p)
                if c is None:
                    return "result is not built by %s::new" % ctors[which]
                src = model.deref(holder["ctx"], c[1][0])
                ok = src is limit or any(cc[2] is src and model.deref(holder["ctx"], cc[1][0]) in (limit, rec) for cc in p.calls if cc[0] in ("<ChildLimit as Clone>::clone", owner + "::get_child_limit"))
                return None if ok and isinstance(c[1][1], T) else "the child limit handed on is not this fortune's"
            if which.endswith("pillar"):
                return None if (isinstance(r, Obj) and r.kind == "SixtyCycle") else "result is not a modelled pillar"
            if which.endswith("year"):
                return None if isinstance(r, YearObj) else "result is not a modelled sexagenary year"
            return None if isinstance(r, T) else "result is not a number"

        def posts(p):
            r = p.ret
            sign = lambda x: "(ite %s %s (- %s))" % (fwd.s, x, x)
            if which in ctors:
                i2 = built(p)[1][1]
                want = "(* 10 %s)" % index.s if which == "decade-start-fortune" else "(+ %s %s)" % (index.s, n.s)
                return [("index", "(= %s %s)" % (i2.s, want))]
            if which == "decade-pillar":
                return [("steps-one-per-decade", "(= %s (mod (+ %s %s) 60))" % (r.idx.s, mp.s, sign("(+ %s 1)" % index.s)))]
            if which == "decade-start-age":
                return [("ten-apart-from-the-end-age", "(= %s (+ %s (* 10 %s)))" % (r.s, virt, index.s))]
            if which == "decade-end-age":
                return [("nine-later", "(= %s (+ %s (* 10 %s) 9))" % (r.s, virt, index.s))]
            if which == "decade-year":
                return [("year", "(= %s (+ %s (* 10 %s)))" % (r.t.s, EY.s, index.s))]
            if which == "year-age":
                return [("age", "(= %s (+ %s %s))" % (r.s, virt, index.s))]
            if which == "year-pillar":
                return [("steps-one-per-year", "(= %s (mod (+ %s %s) 60))" % (r.idx.s, hp.s, sign("(+ %s %s)" % (virt, index.s))))]
            return [("year", "(= %s (+ %s %s))" % (r.t.s, EY.s, index.s))]
        return ctx, paths, pre, posts, shape

    def replay(eng, model):
        nat = eng.native("fortune_scan")
        if nat in ("NONE", "PANIC", "UNKNOWN", ""):
            return nat == "PANIC", "native scan: " + (nat or "no output")
        return True, "fortune rule violated: " + nat

    r = run_kernel(eng, "16.e/B/%s" % which, "16.e", "birth year any, limit ending 0..11 years later, index -1..200, all pillars, both directions", build, None, replay)
    return _finish(r, holder["ctx"]) if "ctx" in holder else r


def k_limit_fortunes(eng, which):
    """ChildLimit::get_start_decade_fortune (index 0), get_decade_fortune (-1: the decade the child limit itself belongs to), get_start_fortune (0)"""
    method, ctor, want = {"start-decade": ("get_start_decade_fortune", "DecadeFortune", 0), "own-decade": ("get_decade_fortune", "DecadeFortune", -1),
                          "start-year": ("get_start_fortune", "Fortune", 0)}[which]
    holder = {}

    def build(eng):
        fn = M.find_fn(eng.fns, method, "&ChildLimit")
        ctx = _ctx(eng, {ctor + "::from_child_limit": ("from_child_limit", "ChildLimit", ctor)})
        rec = Rec(ctx, "self", "ChildLimit")
        holder.update(ctx=ctx)
        paths = ctx.run(fn, [("refrec", rec)])

        def built(p):
            cl = [c for c in p.calls if c[0] == ctor + "::new"]
            return cl[-1] if cl and p.ret is cl[-1][2] else None

        def shape(p):
            c = built(p)
            if c is None:
                return "result is not built by %s::new" % ctor
            src = ctx.model.deref(ctx, c[1][0])
            ok = src is rec or any(cc[2] is src and ctx.model.deref(ctx, cc[1][0]) is rec for cc in p.calls if cc[0] == "<ChildLimit as Clone>::clone")
            return None if ok and isinstance(c[1][1], T) else "the child limit handed on is not this one"

        def posts(p):
            return [("index", "(= %s %d)" % (built(p)[1][1].s, want))]
        return ctx, paths, [], posts, shape

    def replay(eng, model):
        nat = eng.native("fortune_scan")
        if nat in ("NONE", "PANIC", "UNKNOWN", ""):
            return nat == "PANIC", "native scan: " + (nat or "no output")
        return True, "fortune rule violated: " + nat
    r = run_kernel(eng, "16.e/B/limit-%s" % which, "16.e", "every child limit", build, None, replay)
    return _finish(r, holder["ctx"]) if "ctx" in holder else r


def k_sect1(eng):
    """LunarSect1 strategy: the distance between birth and the governing Jie is counted in whole days and double hours (branch index of the
    hour, (h + 1) div 2): 3 days = 1 year, 1 day = 4 months, 1 double hour = 10 days.  At 23:xx the strategy counts index 11 of the day that ends
    (the strategy files 23:00 under index 11 of the day that ends: a convention of its own, taken as part of its definition)."""
    holder = {}

    class DayOf:
        def __init__(self, t):
            self.t = t

    class LH:
        def __init__(self, h):
            self.h = h

    def build(eng):
        fn = M.find_fn(eng.fns, "get_info", "&LunarSect1ChildLimitProvider")
        ctx = _ctx(eng, {})
        holder.update(ctx=ctx)
        rec = Rec(ctx, "self", "LunarSect1ChildLimitProvider")
        birth = Rec(ctx, "birth", "SolarTime")
        term = Rec(ctx, "term", "SolarTerm")
        tt = Rec(ctx, "term_time", "SolarTime")
        hb, ht = ctx.fresh_value("birth_hour", "usize"), ctx.fresh_value("jie_hour", "usize")
        db, dt = ctx.fresh_value("birth_day_number", "isize"), ctx.fresh_value("jie_day_number", "isize")
        after = ctx.fresh_value("birth_is_after_the_jie", "bool")
        model = ctx.model
        base = model.call
        hour_of = lambda x: hb if x is birth else ht
        day_of = lambda x: db if x is birth else dt

        def call(c, fr, callee, args, path):
            a = [model.deref(c, x) for x in args]
            if callee == "JulianDay::get_solar_time":
                return True, tt
            if a and a[0] in (birth, tt):
                if callee == "SolarTime::get_hour":
                    return True, hour_of(a[0])
                if callee == "SolarTime::get_lunar_hour":
                    return True, LH(hour_of(a[0]))
                if callee == "SolarTime::get_solar_day":
                    return True, DayOf(day_of(a[0]))
                if callee in ("SolarTime::is_after", "SolarTime::is_before") and len(a) == 2 and a[1] in (birth, tt) and a[1] is not a[0]:
                    # `after` = birth is after the Jie instant; the other three questions are its mirror images (ties: the instants differ)
                    birth_first = a[0] is birth
                    asks_after = callee.endswith("is_after")
                    return True, (after if birth_first == asks_after else T("(not %s)" % after.s, "Bool"))
            if callee == "LunarHour::get_index_in_day" and isinstance(a[0], LH):
                return True, T("(div (+ %s 1) 2)" % a[0].h.s, "Int")
            if callee == "SolarDay::subtract" and isinstance(a[0], DayOf) and isinstance(a[1], DayOf):
                return True, T("(- %s %s)" % (a[0].t.s, a[1].t.s), "Int")
            return base(c, fr, callee, args, path)
        model.call = call
        paths = ctx.run(fn, [("refrec", rec), birth, term])
        ib, it = "(+ (* 24 %s) %s)" % (db.s, hb.s), "(+ (* 24 %s) %s)" % (dt.s, ht.s)
        pre = ["(<= 0 %s 23)" % hb.s, "(<= 0 %s 23)" % ht.s, "(<= 1721424 %s 5373484)" % db.s, "(<= (- 32) (- %s %s) 32)" % (dt.s, db.s),
               "(=> %s (>= %s %s))" % (after.s, ib, it), "(=> (not %s) (<= %s %s))" % (after.s, ib, it)]
        # the strategy's own convention for the late Zi hour (inherited from the library it was ported from): 23:xx counts as index 11 of the day that ends
        zb, zt = "(ite (= %s 23) 11 (div (+ %s 1) 2))" % (hb.s, hb.s), "(ite (= %s 23) 11 (div (+ %s 1) 2))" % (ht.s, ht.s)
        tot = "(ite %s (+ (* 12 (- %s %s)) (- %s %s)) (+ (* 12 (- %s %s)) (- %s %s)))" % (after.s, db.s, dt.s, zb, zt, dt.s, db.s, zt, zb)

        def shape(p):
            nx = [c for c in p.calls if c[0] == "AbstractChildLimitProvider::next"]
            if len(nx) != 1 or p.ret is not nx[0][2]:
                return "result is not the computed limit"
            if model.deref(ctx, nx[0][1][1]) is not birth:
                return "the addition does not start from the birth instant"
            return None

        def posts(p):
            nx = [c for c in p.calls if c[0] == "AbstractChildLimitProvider::next"][0]
            y, mo, d, h, mi, se = [x.s for x in nx[1][2:8]]
            return [("years", "(= %s (div %s 36))" % (y, tot)), ("months", "(= %s (mod (div %s 3) 12))" % (mo, tot)), ("days", "(= %s (* 10 (mod %s 3)))" % (d, tot)),
                    ("no-clock-part", "(and (= %s 0) (= %s 0) (= %s 0))" % (h, mi, se))]
        return ctx, paths, pre, posts, shape

    def replay(eng, model):
        nat = eng.native("sect1_scan")
        if nat in ("NONE", "PANIC", "UNKNOWN", ""):
            return nat == "PANIC", "native scan: " + (nat or "no output")
        return True, "LunarSect1 limit: " + nat

    r = run_kernel(eng, "16.b/B/ratio/LunarSect1", "16.b", "birth and Jie up to 32 days apart either way, every hour 0..23", build, None, replay)
    return _finish(r, holder["ctx"]) if "ctx" in holder else r
