"""Engine B kernels for the child-limit arithmetic (C16)."""
import os
from . import mir as M
from .mir import T, I, Rec, Ref, Unsupported
from .kernels import run_kernel, struct_fields, REPO
from .pillars import _ctx, _finish


def k_ratio(eng, provider):
    """provider: Default | China95 | LunarSect2 — seconds between birth and the governing Jie -> (years, months, days, hours, minutes)"""
    holder = {}
    line = {"Default": "&DefaultChildLimitProvider", "China95": "&China95ChildLimitProvider", "LunarSect2": "&LunarSect2ChildLimitProvider"}[provider]

    def build(eng):
        fn = M.find_fn(eng.fns, "get_info", line)
        ctx = _ctx(eng, {})
        rec = Rec(ctx, "self", provider)
        birth = Rec(ctx, "birth", "SolarTime")
        term = Rec(ctx, "term", "SolarTerm")
        holder.update(ctx=ctx)
        paths = ctx.run(fn, [("refrec", rec), birth, term])
        pre = []
        for p in paths:
            for c in p.calls:
                if c[0] == "SolarTime::subtract" and isinstance(c[2], T):
                    # the governing Jie lies at most 32 days from the birth instant (ENV-J); sign either way
                    pre.append("(and (<= (- 2764800) %s) (<= %s 2764800))" % (c[2].s, c[2].s))

        def shape(p):
            names = [c[0] for c in p.calls]
            if names[:3] != ["SolarTerm::get_julian_day", "JulianDay::get_solar_time", "SolarTime::subtract"] or names[-1] != "AbstractChildLimitProvider::next":
                return "unexpected call sequence %s" % names
            sub = p.calls[2]
            if sub[1][1] is not birth:
                return "the difference is not taken against the birth instant"
            nx = p.calls[-1]
            if nx[1][1] is not birth:
                return "the addition does not start from the birth instant"
            if p.ret is not nx[2]:
                return "result is not the computed limit"
            return None

        def posts(p):
            S = p.calls[2][2].s
            a = "(ite (< %s 0) (- %s) %s)" % (S, S, S)
            y, mo, d, h, mi, se = [x.s for x in p.calls[-1][1][2:8]]
            if provider == "Default":
                return [("ratio", "(= (+ (* 259200 %s) (* 21600 %s) (* 720 %s) (* 30 %s) (div %s 2)) %s)" % (y, mo, d, h, mi, a)),
                        ("ranges", "(and (<= 0 %s) (<= 0 %s 11) (<= 0 %s 29) (<= 0 %s 23) (<= 0 %s 59) (= (mod %s 2) 0) (= %s 0))" % (y, mo, d, h, mi, mi, se)),
                        ("at-most-eleven-years", "(<= %s 10)" % y)]
            mins = "(div %s 60)" % a
            if provider == "China95":
                return [("ratio", "(and (<= (+ (* 4320 %s) (* 360 %s) (* 12 %s)) %s) (< %s (+ (* 4320 %s) (* 360 %s) (* 12 %s) 12)))" % (y, mo, d, mins, mins, y, mo, d)),
                        ("ranges", "(and (<= 0 %s) (<= 0 %s 11) (<= 0 %s 29) (= %s 0) (= %s 0) (= %s 0))" % (y, mo, d, h, mi, se))]
            return [("ratio", "(= (+ (* 4320 %s) (* 360 %s) (* 12 %s) (div %s 2)) %s)" % (y, mo, d, h, mins)),
                    ("ranges", "(and (<= 0 %s) (<= 0 %s 11) (<= 0 %s 29) (<= 0 %s 23) (= (mod %s 2) 0) (= %s 0) (= %s 0))" % (y, mo, d, h, h, mi, se))]
        return ctx, paths, pre, posts, shape

    r = run_kernel(eng, "16.a/B/ratio/%s" % provider, "16.a", "every difference |S| <= 32 days between birth and the governing Jie instant", build, None, None)
    return _finish(r, holder["ctx"]) if "ctx" in holder else r


def k_addition(eng):
    """AbstractChildLimitProvider::next: carry of seconds/minutes/hours into days and of days through month lengths (loop unrolled, bound proved)"""
    holder = {}

    def build(eng):
        fn = M.find_fn(eng.fns, "next", "&AbstractChildLimitProvider")
        ctx = _ctx(eng, {})
        ctx.max_unroll = 5
        rec = Rec(ctx, "self", "AbstractChildLimitProvider")
        birth = Rec(ctx, "birth", "SolarTime")
        adds = [ctx.fresh_value(n, "usize") for n in ("add_year", "add_month", "add_day", "add_hour", "add_minute", "add_second")]
        holder.update(ctx=ctx)
        paths = ctx.run(fn, [("refrec", rec), birth] + adds)
        ay, am, ad, ah, ami, asec = [x.s for x in adds]
        pre = ["(<= 0 %s 12)" % ay, "(<= 0 %s 11)" % am, "(<= 0 %s 30)" % ad, "(<= 0 %s 23)" % ah, "(<= 0 %s 59)" % ami, "(<= 0 %s 59)" % asec]
        for p in paths:
            for c in p.calls:
                v = c[2]
                if not isinstance(v, T):
                    continue
                rng = {"SolarTime::get_day": (1, 31), "SolarTime::get_hour": (0, 23), "SolarTime::get_minute": (0, 59), "SolarTime::get_second": (0, 59),
                       "SolarMonth::get_day_count": (21, 31), "SolarTime::get_year": (1, 9980), "SolarTime::get_month": (1, 12)}.get(c[0])
                if rng:
                    pre.append("(<= %d %s %d)" % (rng[0], v.s, rng[1]))

        def shape(p):
            if getattr(p, "cut", False):
                return None
            names = [c[0] for c in p.calls]
            if names[:4] != ["SolarTime::get_day", "SolarTime::get_hour", "SolarTime::get_minute", "SolarTime::get_second"]:
                return "unexpected start of call sequence %s" % names[:4]
            if "SolarMonth::from_ym" not in names or names[-1] != "SolarTime::from_ymd_hms":
                return "unexpected call sequence %s" % names
            return None

        def posts(p):
            if getattr(p, "cut", False):
                return []
            cs = {c[0]: c for c in p.calls}
            bd, bh, bmi, bs = [p.calls[k][2].s for k in range(4)]
            ctor = p.calls[-1]
            d2, h2, mi2, s2 = [x.s for x in ctor[1][2:6]]
            dcs = [c[2].s for c in p.calls if c[0] == "SolarMonth::get_day_count"]
            consumed = dcs[:-1]
            tot = "(+ (* 86400 (+ %s %s)) (* 3600 (+ %s %s)) (* 60 (+ %s %s)) (+ %s %s))" % (bd, ad, bh, ah, bmi, ami, bs, asec)
            dsum = "(+ %s %s)" % (d2, " ".join(consumed)) if consumed else d2
            fy = cs["SolarMonth::from_ym"]
            steps = [c for c in p.calls if c[0] == "<SolarMonth as Tyme>::next"]
            out = [("clock", "(and (<= 0 %s 23) (<= 0 %s 59) (<= 0 %s 59))" % (h2, mi2, s2)),
                   ("total", "(= (+ (* 86400 %s) (* 3600 %s) (* 60 %s) %s) %s)" % (dsum, h2, mi2, s2, tot)),
                   ("day-in-month", "(and (<= 1 %s) (<= %s %s))" % (d2, d2, dcs[-1])),
                   ("start-month", "(and (= %s (+ %s %s)) (= %s %s))" % (fy[1][0].s, cs["SolarTime::get_year"][2].s, ay, fy[1][1].s, cs["SolarTime::get_month"][2].s)),
                   ("month-steps", "(and (= %s %s) %s)" % (steps[0][1][1].s, am, " ".join("(= %s 1)" % c[1][1].s for c in steps[1:]) if len(steps) > 1 else "true"))]
            return out
        return ctx, paths, pre, posts, shape

    r = run_kernel(eng, "16.c/B/addition", "16.c", "birth clock/day any, additions up to 12 y, 11 m, 30 d, 23 h, 59 min, 59 s; month lengths any 21..31; month-carry loop unrolled 5 times with the bound proved",
                   build, None, None)
    return _finish(r, holder["ctx"]) if "ctx" in holder else r
