"""Engine B kernels for the structural clauses of the lunar calendar (C02, C03)."""
import os
from . import mir as M
from .mir import T, I, Rec, Ref, Variant, Opaque, Unsupported
from .kernels import run_kernel, struct_fields, REPO
from .pillars import _ctx, _finish
from .almanac import _override


def k_month_new(eng):
    """LunarMonth::new(year, month): acceptance and index in year for ANY leap-month table and ANY astronomy"""
    holder = {}

    def build(eng):
        fn = None
        for name, fl in eng.fns.items():
            for f in fl:
                if name.endswith("::new") and f.ret.startswith("Result<LunarMonth") and len(f.args) == 2:
                    fn = f
        if fn is None:
            raise Unsupported("LunarMonth::new not found")
        ctx = _ctx(eng, {})
        year = ctx.fresh_value("year", "isize")
        month = ctx.fresh_value("month", "isize")
        L0 = ctx.fresh_value("leap_of_year", "usize")
        L1 = ctx.fresh_value("leap_of_previous_year", "usize")
        holder.update(ctx=ctx)
        model = ctx.model
        base = model.call
        years = {}

        def call(c, fr, callee, args, path):
            if callee == "LunarYear::from_year":
                r = Rec(c, "lunar_year", "LunarYear")
                r.of = args[0]
                return True, r
            if callee == "LunarYear::get_leap_month":
                ly = model.deref(c, args[0])
                t = getattr(ly, "of", None)
                if t is year:
                    return True, L0
                return True, L1      # the only other year the constructor looks at is year - 1 (checked in shape)
            return base(c, fr, callee, args, path)
        model.call = call
        paths = ctx.run(fn, [year, month])
        pre = ["(<= 0 %s 9999)" % year.s, "(<= (- 20) %s 20)" % month.s, "(<= 0 %s 12)" % L0.s, "(<= 0 %s 12)" % L1.s]
        am = "(ite (< %s 0) (- %s) %s)" % (month.s, month.s, month.s)
        legal = "(and (not (= %s 0)) (<= %s 12) (or (> %s 0) (= %s %s)))" % (month.s, am, month.s, am, L0.s)

        def shape(p):
            if not isinstance(p.ret, Variant):
                return "result is not Ok/Err"
            ys = [c for c in p.calls if c[0] == "LunarYear::from_year"]
            for c in ys[1:]:
                a = c[1][0]
                if not (isinstance(a, T) and a.s == "(- %s 1)" % year.s):
                    return "a year other than year and year - 1 is consulted: %s" % a
            if p.ret.name == "Ok":
                v = p.ret.value
                if not (isinstance(v, Rec) and hasattr(v, "named")):
                    return "Ok value is not a LunarMonth aggregate"
            return None

        def posts(p):
            if p.ret.name == "Err":
                return [("refused-only-if-illegal", "(not %s)" % legal)]
            v = p.ret.value.named
            idx = v["index_in_year"].s
            exp = "(+ (- %s 1) (ite (or (< %s 0) (and (> %s 0) (> %s %s))) 1 0))" % (am, month.s, L0.s, am, L0.s)
            return [("accepted-only-if-legal", legal), ("index-in-year", "(= %s %s)" % (idx, exp)), ("month-number", "(= %s %s)" % (v["month"].s, am)),
                    ("leap-flag", "(= %s (< %s 0))" % (v["leap"].s, month.s)), ("index-range", "(<= 0 %s (ite (> %s 0) 12 11))" % (idx, L0.s))]
        return ctx, paths, pre, posts, shape

    def replay(eng, model):
        try:
            l0, mo = int(model["|leap_of_year|"]), int(model["|month|"])
        except Exception as e:
            return False, "model incomplete %r" % e
        nat = eng.native("lunar_month_new", l0, mo)
        if nat == "NONE":
            return False, "no real year 1900..2200 has leap month %d" % l0
        am = abs(mo)
        legal = mo != 0 and am <= 12 and (mo > 0 or am == l0)
        if nat in ("err", "PANIC"):
            return legal, "LunarMonth::new(year with leap month %d, %d) is refused" % (l0, mo)
        _, idx, mm, lp = nat.split()
        exp = am - 1 + (1 if (mo < 0 or (l0 > 0 and am > l0)) else 0)
        bad = (not legal) or int(idx) != exp or int(mm) != am or (lp == "true") != (mo < 0)
        return bad, "LunarMonth::new(year with leap month %d, %d) = index %s month %s leap %s, expected index %d" % (l0, mo, idx, mm, lp, exp)

    r = run_kernel(eng, "03.c/B/month-new", "03.c", "every year 0..9999, month -20..20, any leap months of the year and the previous year, any astronomy", build, None, replay)
    return _finish(r, holder["ctx"]) if "ctx" in holder else r


def k_day_order(eng, which):
    """LunarDay::is_before / is_after = lexicographic order of (year, index in year, day) — chronological incl. a month vs its leap twin"""
    holder = {}

    def build(eng):
        fields = struct_fields(os.path.join(REPO, "src/tyme/lunar.rs"), "LunarDay")
        mfields = struct_fields(os.path.join(REPO, "src/tyme/lunar.rs"), "LunarMonth")
        yfields = struct_fields(os.path.join(REPO, "src/tyme/lunar.rs"), "LunarYear")
        fn = M.find_fn(eng.fns, which, "&LunarDay")
        getters = {"LunarDay::get_year": ("get_year", "&LunarDay", None), "LunarDay::get_month": ("get_month", "&LunarDay", None), "LunarDay::get_day": ("get_day", "&LunarDay", None),
                   "LunarDay::get_lunar_month": ("get_lunar_month", "&LunarDay", None), "LunarMonth::get_year": ("get_year", "&LunarMonth", None),
                   "LunarMonth::get_month_with_leap": ("get_month_with_leap", "&LunarMonth", None), "LunarMonth::get_index_in_year": ("get_index_in_year", "&LunarMonth", None),
                   "LunarYear::get_year": ("get_year", "&LunarYear", None)}
        ctx = _ctx(eng, getters)
        ctx.auto_inline = True       # the specification names no call: private helpers (e.g. an ordinal) are executed, not abstracted
        holder.update(ctx=ctx)
        L = ctx.fresh_value("leap_of_year", "usize")

        def mk(name):
            rec = Rec(ctx, name, "LunarDay")
            day = rec.field(fields.index("day"), "usize")
            mrec = rec.field(fields.index("month"), "LunarMonth")
            yrec = mrec.field(mfields.index("year"), "LunarYear")
            year = yrec.field(yfields.index("year"), "isize")
            month = mrec.field(mfields.index("month"), "usize")
            leap = mrec.field(mfields.index("leap"), "bool")
            idx = mrec.field(mfields.index("index_in_year"), "usize")
            return rec, dict(day=day, year=year, month=month, leap=leap, idx=idx)
        a, A = mk("self")
        b, Bv = mk("target")
        paths = ctx.run(fn, [("refrec", a), b])
        pre = []
        for V in (A, Bv):
            pre += ["(<= 1 %s 30)" % V["day"].s, "(<= 1 %s 12)" % V["month"].s, "(<= (- 1) %s 9999)" % V["year"].s,
                    # struct invariant of a constructed month (03.c): index in year from (month, leap flag, the year's leap month)
                    "(= %s (+ (- %s 1) (ite (or %s (and (> %s 0) (> %s %s))) 1 0)))" % (V["idx"].s, V["month"].s, V["leap"].s, L.s, V["month"].s, L.s),
                    "(=> %s (= %s %s))" % (V["leap"].s, V["month"].s, L.s)]
        pre.append("(<= 0 %s 12)" % L.s)

        def shape(p):
            if not isinstance(p.ret, T) or p.ret.sort != "Bool":
                return "result is not a boolean"
            return None

        def posts(p):
            # same leap table for both only matters within one year; across years the year decides
            lt = "(or (< {ay} {by}) (and (= {ay} {by}) (or (< {ai} {bi}) (and (= {ai} {bi}) (< {ad} {bd})))))"
            f = dict(ay=A["year"].s, by=Bv["year"].s, ai=A["idx"].s, bi=Bv["idx"].s, ad=A["day"].s, bd=Bv["day"].s)
            g = dict(ay=Bv["year"].s, by=A["year"].s, ai=Bv["idx"].s, bi=A["idx"].s, ad=Bv["day"].s, bd=A["day"].s)
            order = lt.format(**f) if which == "is_before" else lt.format(**g)
            # the leap-table variable is shared: only meaningful when the two days are in the same year
            return [("chronological", "(=> (= %s %s) (= %s %s))" % (A["year"].s, Bv["year"].s, p.ret.s, order)),
                    ("other-year", "(=> (not (= %s %s)) (= %s (%s %s %s)))" % (A["year"].s, Bv["year"].s, p.ret.s, "<" if which == "is_before" else ">", A["year"].s, Bv["year"].s))]
        return ctx, paths, pre, posts, shape

    def replay(eng, model):
        g = lambda k: model.get(k)
        try:
            L = int(g("|leap_of_year|"))
            fields = struct_fields(os.path.join(REPO, "src/tyme/lunar.rs"), "LunarDay")
            mfields = struct_fields(os.path.join(REPO, "src/tyme/lunar.rs"), "LunarMonth")
            di, mi = fields.index("day"), fields.index("month")
            yfields = struct_fields(os.path.join(REPO, "src/tyme/lunar.rs"), "LunarYear")
            def side(n):
                return (int(g("|%s.%d.%d|" % (n, mi, mfields.index("month")))), 1 if g("|%s.%d.%d|" % (n, mi, mfields.index("leap"))) == "true" else 0, int(g("|%s.%d|" % (n, di))),
                        int(g("|%s.%d.%d.%d|" % (n, mi, mfields.index("year"), yfields.index("year")))))
            a, b = side("self"), side("target")
            dy = max(-3, min(3, b[3] - a[3]))
        except Exception as e:
            return False, "model incomplete %r" % e
        nat = eng.native("lunar_order", 0 if which == "is_before" else 1, L, a[0], a[1], min(a[2], 29), b[0], b[1], min(b[2], 29), dy)
        if nat in ("NONE", "PANIC"):
            return False, "no real year realises the pair (%s)" % nat
        res, ia, ib = nat.split()
        ka, kb = (0, int(ia), min(a[2], 29)), (dy, int(ib), min(b[2], 29))
        exp = ka < kb if which == "is_before" else ka > kb
        return ((res == "true") != exp), "%s of (month %d%s day %d) vs (month %d%s day %d, %+d years) in a year with leap month %d = %s, chronological order says %s" % (
            which, a[0], " leap" if a[1] else "", ka[2], b[0], " leap" if b[1] else "", kb[2], dy, L, res, str(exp).lower())

    r = run_kernel(eng, "02.a/B/%s" % which, "02.a", "any two lunar days, any leap month of their year; month records satisfy the constructor's invariant (03.c)", build, None, replay)
    return _finish(r, holder["ctx"]) if "ctx" in holder else r


def k_day_new(eng):
    """LunarDay::new accepts exactly day 1..day_count of the month it is given"""
    holder = {}

    def build(eng):
        fn = None
        for name, fl in eng.fns.items():
            for f in fl:
                if name.endswith("::new") and f.ret.startswith("Result<LunarDay") and len(f.args) == 3:
                    fn = f
        if fn is None:
            raise Unsupported("LunarDay::new not found")
        mfields = struct_fields(os.path.join(REPO, "src/tyme/lunar.rs"), "LunarMonth")
        ctx = _ctx(eng, {"LunarMonth::get_day_count": ("get_day_count", "&LunarMonth", None)})
        holder.update(ctx=ctx)
        year, month, day = ctx.fresh_value("year", "isize"), ctx.fresh_value("month", "isize"), ctx.fresh_value("day", "usize")
        mrec = Rec(ctx, "the_month", "LunarMonth")
        dc = mrec.field(mfields.index("day_count"), "usize")
        _override(ctx, {"LunarMonth::from_ym": mrec})
        paths = ctx.run(fn, [year, month, day])
        pre = ["(<= 0 %s 40)" % day.s, "(<= 0 %s 31)" % dc.s]

        def shape(p):
            if not isinstance(p.ret, Variant):
                return "result is not Ok/Err"
            c = [c for c in p.calls if c[0] == "LunarMonth::from_ym"]
            if len(c) != 1 or c[0][1][0] is not year or c[0][1][1] is not month:
                return "the month is not looked up with the given (year, month)"
            return None

        def posts(p):
            ok = "(and (<= 1 %s) (<= %s %s))" % (day.s, day.s, dc.s)
            if p.ret.name == "Err":
                return [("refused-only-if-outside", "(not %s)" % ok)]
            v = p.ret.value.named
            return [("accepted-only-if-inside", ok), ("day", "(= %s %s)" % (v["day"].s, day.s)), ("month", "true" if v["month"] is mrec else "false")]
        return ctx, paths, pre, posts, shape

    def replay(eng, model):
        try:
            d = int(model["|day|"])
            dc = [int(v) for k, v in model.items() if k.startswith("|the_month.")][0]
        except Exception as e:
            return False, "model incomplete %r" % e
        nat = eng.native("lunar_day_new", dc, d)
        if nat in ("NONE",):
            return False, "no real month has %d days" % dc
        exp = 1 <= d <= dc
        return ((nat == "true") != exp), "LunarDay::new(day %d) in a month of %d days: accepted=%s" % (d, dc, nat)

    r = run_kernel(eng, "02.b/B/day-new", "02.b", "day 0..40 against any month length 0..31", build, None, replay)
    return _finish(r, holder["ctx"]) if "ctx" in holder else r


class Mon:
    def __init__(self, off):
        self.off = off


def k_solar_to_lunar(eng):
    """SolarDay::get_lunar_day: walk back from the lunar month that carries the civil month's number to the month containing the date.
    Months are objects on the month line (stepping: 11.e) with first-day numbers F(k) that tile (the length of month k is F(k+1) - F(k):
    C03's data clause, assumed); contract: the month after the starting one begins after the date (lunar month m begins on or after
    the 21st of civil month m).  Decides: the reported lunar day is (month containing the date, day number - first day + 1) — the
    inverse of LunarDay::get_solar_day (02.c2) — so both round trips and 'consecutive civil days map to consecutive lunar days'
    hold wherever the contract does."""
    from .seasons import DayV
    from .objmodel import JD
    holder = {}

    def build(eng):
        fn = M.find_fn(eng.fns, "get_lunar_day", "&SolarDay")
        ctx = _ctx(eng, {})
        ctx.max_unroll = 5
        rec = Rec(ctx, "self", "SolarDay")
        O = ctx.fresh_value("day_number", "isize")
        cy = ctx.fresh_value("civil_year", "isize")
        cm = ctx.fresh_value("civil_month", "usize")
        F = {o: ctx.fresh_value("first_day_of_month_%s%d" % ("p" if o >= 0 else "m", abs(o)), "isize") for o in range(-5, 3)}
        ident = {}
        holder.update(ctx=ctx)
        model = ctx.model
        base = model.call

        def call(c, fr, callee, args, path):
            a = [model.deref(c, x) for x in args]
            if callee == "SolarDay::get_year" and a[0] is rec:
                return True, cy
            if callee == "SolarDay::get_month" and a[0] is rec:
                return True, cm
            if callee == "LunarMonth::from_ym":
                path.start_args = (a[0], a[1])
                return True, Mon(0)
            if a and isinstance(a[0], Mon):
                o = a[0].off
                if o not in F or o + 1 not in F:
                    raise Unsupported("walk left the modelled window")
                if callee == "LunarMonth::get_first_julian_day":
                    return True, JD(F[o])
                if callee == "<LunarMonth as Tyme>::next" and isinstance(a[1], T) and a[1].c is not None:
                    return True, Mon(o + a[1].c)
                if callee == "LunarMonth::get_day_count":
                    return True, T("(- %s %s)" % (F[o + 1].s, F[o].s), "Int")
                if callee in ("LunarMonth::get_year", "LunarMonth::get_month_with_leap"):
                    key = (callee, o)
                    if key not in ident:
                        ident[key] = c.fresh_value("%s_of_month_%d" % (callee.split("::")[1], o), "isize")
                    return True, ident[key]
            if callee == "JulianDay::get_solar_day" and a and isinstance(a[0], JD):
                return True, DayV(a[0].t)
            if callee == "SolarDay::subtract" and a[0] is rec and isinstance(a[1], DayV):
                return True, T("(- %s %s)" % (O.s, a[1].t.s), "Int")
            return base(c, fr, callee, args, path)
        model.call = call
        paths = ctx.run(fn, [("refrec", rec)])
        pre = ["(<= 1 %s 9999)" % cy.s, "(<= 1 %s 12)" % cm.s, "(<= 1721424 %s 5373484)" % O.s]
        for o in range(-4, 3):
            pre.append("(<= 29 (- %s %s) 30)" % (F[o].s, F[o - 1].s))
        pre += ["(< %s %s)" % (O.s, F[1].s), "(>= %s %s)" % (O.s, F[-3].s)]

        def shape(p):
            if getattr(p, "cut", False):
                return None
            if not p.calls or p.calls[-1][0] != "LunarDay::from_ymd" or p.ret is not p.calls[-1][2]:
                return "result is not built by LunarDay::from_ymd"
            return None

        def posts(p):
            if getattr(p, "cut", False):
                return []
            sa = getattr(p, "start_args", None)
            y2, m2, d2 = p.calls[-1][1]
            # which month did the walk end in: the one whose identifiers are handed on
            j = None
            for (callee, o), v in ident.items():
                if callee == "LunarMonth::get_year" and v is y2:
                    j = o
            if j is None or ident.get(("LunarMonth::get_month_with_leap", j)) is not m2:
                return [("month-identifiers", "false")]
            out = [("contains", "(and (<= %s %s) (< %s %s))" % (F[j].s, O.s, O.s, F[j + 1].s)), ("day", "(= %s (+ (- %s %s) 1))" % (d2.s, O.s, F[j].s))]
            if sa is not None and isinstance(sa[0], T) and isinstance(sa[1], T):
                out.append(("start", "(and (= %s %s) (= %s %s))" % (sa[0].s, cy.s, sa[1].s, cm.s)))
            return out
        return ctx, paths, pre, posts, shape

    def replay(eng, model):
        nat = eng.native("roundtrip_scan")
        if nat in ("NONE", "PANIC", "UNKNOWN", ""):
            return nat == "PANIC", "native scan: " + (nat or "no output")
        return True, "civil -> lunar -> civil is not the identity: " + nat

    r = run_kernel(eng, "02.c/B/solar-to-lunar", "02.c", "every date; month starts any tiling table with lengths 29..30; the month after the starting one begins after the date; walk bound 5 proved",
                   build, None, replay)
    return _finish(r, holder["ctx"]) if "ctx" in holder else r


def k_lunar_to_solar(eng):
    """LunarDay::get_solar_day = (first day number of its month) + day - 1, through the one-slot cache (empty cache)"""
    from .seasons import DayV
    from .objmodel import JD
    holder = {}

    def build(eng):
        fields = struct_fields(os.path.join(REPO, "src/tyme/lunar.rs"), "LunarDay")
        fn = M.find_fn(eng.fns, "get_solar_day", "&LunarDay")
        ctx = _ctx(eng, {})
        rec = Rec(ctx, "self", "LunarDay")
        day = rec.field(fields.index("day"), "usize")
        X = ctx.fresh_value("first_day_of_month", "isize")
        cell = {"content": Variant("None", None)}
        holder.update(ctx=ctx)
        model = ctx.model
        base = model.call

        def call(c, fr, callee, args, path):
            a = [model.deref(c, x) for x in args]
            if callee.startswith("RefCell::<") and callee.endswith("::borrow"):
                return True, ("cellref",)
            if callee.startswith("<Ref<") and callee.endswith("as Deref>::deref"):
                return True, cell["content"]
            if callee.endswith("::is_none") and isinstance(a[0], Variant):
                return True, M.B(a[0].name == "None")
            if callee.startswith("RefCell::<") and callee.endswith("::replace"):
                old = cell["content"]
                cell["content"] = a[1]
                return True, old
            if callee.endswith("::unwrap") and isinstance(a[0], Variant) and a[0].name == "Some":
                return True, a[0].value
            if callee == "LunarMonth::get_first_julian_day":
                return True, JD(X)
            if callee == "JulianDay::get_solar_day" and isinstance(a[0], JD):
                return True, DayV(a[0].t)
            return base(c, fr, callee, args, path)
        model.call = call
        paths = ctx.run(fn, [("refrec", rec)])
        pre = ["(<= 1 %s 30)" % day.s, "(<= 1721424 %s 5373484)" % X.s]

        def shape(p):
            return None if isinstance(p.ret, DayV) else "result is not a day produced from the month's first day"
        return ctx, paths, pre, (lambda p: [("day-number", "(= %s (+ %s %s (- 1)))" % (p.ret.t.s, X.s, day.s))]), shape

    r = run_kernel(eng, "02.c2/B/lunar-to-solar", "02.c", "every month first day number, every day 1..30 (cache empty)", build, None, None)
    return _finish(r, holder["ctx"]) if "ctx" in holder else r


def k_lunar_day_next(eng):
    """LunarDay::next(n): the lunar date of the civil day n days after this lunar day's civil day (n = 0: itself).  A result built
    directly by LunarDay::from_ymd is accepted only when its (year, month-with-leap) identify this very month and the day stays
    inside it; any other month identity is a month the specification knows nothing about."""
    from .seasons import DayV
    holder = {}

    class LD:
        def __init__(self, t):
            self.t = t        # day number of the civil day this lunar day denotes

    def build(eng):
        fields = struct_fields(os.path.join(REPO, "src/tyme/lunar.rs"), "LunarDay")
        mfields = struct_fields(os.path.join(REPO, "src/tyme/lunar.rs"), "LunarMonth")
        yfields = struct_fields(os.path.join(REPO, "src/tyme/lunar.rs"), "LunarYear")
        fn = M.find_fn(eng.fns, "next", "&LunarDay", 2)
        ctx = _ctx(eng, {"LunarDay::get_year": ("get_year", "&LunarDay", None), "LunarDay::get_month": ("get_month", "&LunarDay", None), "LunarDay::get_day": ("get_day", "&LunarDay", None),
                         "LunarMonth::get_year": ("get_year", "&LunarMonth", None), "LunarMonth::get_month_with_leap": ("get_month_with_leap", "&LunarMonth", None),
                         "LunarMonth::get_month": ("get_month", "&LunarMonth", None), "LunarMonth::get_day_count": ("get_day_count", "&LunarMonth", None),
                         "LunarYear::get_year": ("get_year", "&LunarYear", None), "LunarMonth::is_leap": ("is_leap", "&LunarMonth", None)})
        rec = Rec(ctx, "self", "LunarDay")
        day = rec.field(fields.index("day"), "usize")
        mrec = rec.field(fields.index("month"), "LunarMonth")
        month = mrec.field(mfields.index("month"), "usize")
        leap = mrec.field(mfields.index("leap"), "bool")
        dcount = mrec.field(mfields.index("day_count"), "usize")
        year = mrec.field(mfields.index("year"), "LunarYear").field(yfields.index("year"), "isize")
        F0 = ctx.fresh_value("first_day_of_this_month", "isize")
        n = ctx.fresh_value("n", "isize")
        holder.update(ctx=ctx)
        model = ctx.model
        base = model.call
        mw = "(ite %s (- %s) %s)" % (leap.s, month.s, month.s)

        def call(c, fr, callee, args, path):
            a = [model.deref(c, x) for x in args]
            if callee == "LunarDay::get_solar_day" and a[0] is rec:
                return True, DayV(T("(+ %s %s (- 1))" % (F0.s, day.s), "Int"))          # 02.c2
            if callee == "<SolarDay as Tyme>::next" and isinstance(a[0], DayV) and isinstance(a[1], T):
                return True, DayV(T("(+ %s %s)" % (a[0].t.s, a[1].s), "Int"))            # 01.g
            if callee == "SolarDay::get_lunar_day" and isinstance(a[0], DayV):
                return True, LD(a[0].t)                                                   # 02.c
            if callee == "<LunarDay as Clone>::clone" and a[0] is rec:
                return True, LD(T("(+ %s %s (- 1))" % (F0.s, day.s), "Int"))
            if callee in ("LunarDay::from_ymd", "LunarDay::new") and len(a) == 3 and all(isinstance(x, T) for x in a):
                same = "(and (= %s %s) (= %s %s) (<= 1 %s) (<= %s %s))" % (a[0].s, year.s, a[1].s, mw, a[2].s, a[2].s, dcount.s)
                unknown = c.fresh_value("day_number_of_some_other_lunar_day", "isize")
                return True, LD(T("(ite %s (+ %s %s (- 1)) %s)" % (same, F0.s, a[2].s, unknown.s), "Int"))
            return base(c, fr, callee, args, path)
        model.call = call
        paths = ctx.run(fn, [("refrec", rec), n])
        pre = ["(<= 1 %s 12)" % month.s, "(<= 29 %s 30)" % dcount.s, "(<= 1 %s %s)" % (day.s, dcount.s), "(<= (- 1000) %s 1000)" % n.s, "(<= 1721424 %s 5373000)" % F0.s,
               "(<= (- 1) %s 9999)" % year.s]

        def shape(p):
            return None if isinstance(p.ret, LD) else "result is not a lunar day derived from a civil day or from this month"
        return ctx, paths, pre, (lambda p: [("n-days-later", "(= %s (+ %s %s (- 1) %s))" % (p.ret.t.s, F0.s, day.s, n.s))]), shape

    def replay(eng, model):
        nat = eng.native("lunar_next_scan")
        if nat in ("NONE", "PANIC", "UNKNOWN", ""):
            return nat == "PANIC", "native scan: " + (nat or "no output")
        return True, "LunarDay::next(n) is not the lunar date n civil days later: " + nat

    r = run_kernel(eng, "02.d/B/lunar-day-next", "02.d", "every lunar day of every month (regular or leap, 29..30 days), |n| <= 1000", build, None, replay)
    return _finish(r, holder["ctx"]) if "ctx" in holder else r


def k_lunar_hour_next(eng):
    """LunarHour::next(n): 2n hours later — the day moves by floor((hour + 2n) / 24) lunar days (LunarDay::next, 02.d), the hour is the remainder,
    minute and second are kept"""
    holder = {}

    class DayAt:
        def __init__(self, t):
            self.t = t

    class Part(T):
        __slots__ = ("of", "what")

        def __init__(self, s, of, what):
            T.__init__(self, s, "Int")
            self.of, self.what = of, what

    def build(eng):
        fields = struct_fields(os.path.join(REPO, "src/tyme/lunar.rs"), "LunarHour")
        fn = M.find_fn(eng.fns, "next", "&LunarHour", 2)
        ctx = _ctx(eng, {})
        rec = Rec(ctx, "self", "LunarHour")
        hour = rec.field(fields.index("hour"), "usize")
        minute = rec.field(fields.index("minute"), "usize")
        second = rec.field(fields.index("second"), "usize")
        dayrec = rec.field(fields.index("day"), "LunarDay")
        n = ctx.fresh_value("n", "isize")
        holder.update(ctx=ctx)
        model = ctx.model
        base = model.call
        built = {}

        def call(c, fr, callee, args, path):
            a = [model.deref(c, x) for x in args]
            if callee == "<LunarDay as Tyme>::next" and a[0] is dayrec and isinstance(a[1], T):
                return True, DayAt(a[1])
            if callee in ("LunarDay::get_year", "LunarDay::get_month", "LunarDay::get_day") and isinstance(a[0], DayAt):
                nm = c.sym(callee.split("::")[1])
                c.inputs[nm] = ("Int", -(1 << 40), 1 << 40)
                return True, Part(nm, a[0], callee.split("::")[1])
            if callee == "LunarHour::from_ymd_hms" and len(a) == 6:
                y, m, d = a[0], a[1], a[2]
                if not (isinstance(y, Part) and isinstance(m, Part) and isinstance(d, Part) and y.of is m.of is d.of and (y.what, m.what, d.what) == ("get_year", "get_month", "get_day")):
                    raise Unsupported("LunarHour::from_ymd_hms is not given the year, month and day of one stepped lunar day")
                r = Rec(c, "built_hour", "LunarHour")
                built[id(r)] = (y.of.t, a[3], a[4], a[5])
                return True, r
            return base(c, fr, callee, args, path)
        model.call = call
        paths = ctx.run(fn, [("refrec", rec), n])
        pre = ["(<= 0 %s 23)" % hour.s, "(<= 0 %s 59)" % minute.s, "(<= 0 %s 59)" % second.s, "(<= (- 100000000) %s 100000000)" % n.s]

        def parts(p):
            r = p.ret
            if id(r) in built:
                return built[id(r)]
            if r is rec or any(c[0] == "<LunarHour as Clone>::clone" and c[2] is r and model.deref(ctx, c[1][0]) is rec for c in p.calls):
                return (I(0), hour, minute, second)
            return None

        def shape(p):
            return None if parts(p) is not None else "result is neither built by LunarHour::from_ymd_hms nor a copy of self"

        def posts(p):
            dd, h2, mi2, s2 = parts(p)
            return [("two-hours-per-step", "(= (+ (* 24 %s) %s) (+ %s (* 2 %s)))" % (dd.s, h2.s, hour.s, n.s)), ("hour-in-range", "(<= 0 %s 23)" % h2.s),
                    ("minute-kept", "(= %s %s)" % (mi2.s, minute.s)), ("second-kept", "(= %s %s)" % (s2.s, second.s))]
        return ctx, paths, pre, posts, shape

    def replay(eng, model):
        nat = eng.native("lunar_hour_next_scan")
        if nat in ("NONE", "PANIC", "UNKNOWN", ""):
            return nat == "PANIC", "native scan: " + (nat or "no output")
        return True, "LunarHour::next(n) is not 2n hours later: " + nat

    r = run_kernel(eng, "11.i/B/lunar-hour-next", "11.i", "every hour 0..23, minute, second, |n| <= 10^8", build, None, replay)
    return _finish(r, holder["ctx"]) if "ctx" in holder else r


def k_lunar_month_days(eng):
    """LunarMonth::get_days: exactly the days 1..day count of this month (year, month-with-leap), in order"""
    from .mir import VecV
    holder = {}

    def build(eng):
        fn = M.find_fn(eng.fns, "get_days", "&LunarMonth")
        ctx = _ctx(eng, {})
        ctx.max_unroll = 33
        holder.update(ctx=ctx)
        rec = Rec(ctx, "self", "LunarMonth")
        count = ctx.fresh_value("day_count", "usize")
        year = ctx.fresh_value("year", "isize")
        mw = ctx.fresh_value("month_with_leap", "isize")
        model = ctx.model
        base = model.call
        made = {}

        def call(c, fr, callee, args, path):
            a = [model.deref(c, x) for x in args]
            if a and a[0] is rec:
                r = {"LunarMonth::get_day_count": count, "LunarMonth::get_year": year, "LunarMonth::get_month_with_leap": mw}.get(callee)
                if r is not None:
                    return True, r
            if callee in ("LunarDay::from_ymd",) and len(a) == 3 and all(isinstance(x, T) for x in a):
                r = Rec(c, "day", "LunarDay")
                made[id(r)] = a
                return True, r
            return base(c, fr, callee, args, path)
        model.call = call
        paths = ctx.run(fn, [("refrec", rec)])
        pre = ["(<= 29 %s 30)" % count.s, "(<= (- 1) %s 9999)" % year.s, "(<= (- 12) %s 12)" % mw.s]

        def shape(p):
            if getattr(p, "cut", False):
                return None
            if not isinstance(p.ret, VecV):
                return "result is not the vector that was filled"
            return None if all(id(x) in made for x in p.ret.items) else "an element is not built by LunarDay::from_ymd"

        def posts(p):
            if getattr(p, "cut", False):
                return []
            out = [("length", "(= %d %s)" % (len(p.ret.items), count.s))]
            for k, x in enumerate(p.ret.items):
                y, m, d = made[id(x)]
                out.append(("element-%d" % k, "(and (= %s %s) (= %s %s) (= %s %d))" % (y.s, year.s, m.s, mw.s, d.s, k + 1)))
            return out
        return ctx, paths, pre, posts, shape

    def replay(eng, model):
        nat = eng.native("lunar_lists_scan")
        if nat in ("NONE", "PANIC", "UNKNOWN", ""):
            return nat == "PANIC", "native scan: " + (nat or "no output")
        return True, "a lunar list accessor does not list exactly its parts: " + nat

    r = run_kernel(eng, "13.d/B/lunar-month-days", "13.d", "every month identity, day count 29..30; listing loop unrolled 33 times with the bound proved", build, None, replay)
    return _finish(r, holder["ctx"]) if "ctx" in holder else r


def k_lunar_hour_order(eng, which):
    """LunarHour::is_before / is_after = chronological order of (lunar day, hour, minute, second); lunar days ordered per 02.a"""
    holder = {}

    class DayO:
        def __init__(self, t):
            self.t = t

    def build(eng):
        fields = struct_fields(os.path.join(REPO, "src/tyme/lunar.rs"), "LunarHour")
        fn = M.find_fn(eng.fns, which, "&LunarHour", 2)
        ctx = _ctx(eng, {})
        holder.update(ctx=ctx)
        a_rec, b_rec = Rec(ctx, "self", "LunarHour"), Rec(ctx, "target", "LunarHour")
        dA, dB = ctx.fresh_value("day_of_self", "isize"), ctx.fresh_value("day_of_target", "isize")
        a_rec.fields[fields.index("day")] = DayO(dA)
        b_rec.fields[fields.index("day")] = DayO(dB)
        hms = {}
        for nm, r in (("a", a_rec), ("b", b_rec)):
            hms[nm] = [r.field(fields.index(f), "usize") for f in ("hour", "minute", "second")]
        model = ctx.model
        base = model.call

        def call(c, fr, callee, args, path):
            a = [model.deref(c, x) for x in args]
            if callee == "LunarHour::get_lunar_day" and a[0] in (a_rec, b_rec):
                return True, DayO(dA if a[0] is a_rec else dB)
            for k, f in enumerate(("get_hour", "get_minute", "get_second")):
                if callee == "LunarHour::" + f and a[0] in (a_rec, b_rec):
                    return True, hms["a" if a[0] is a_rec else "b"][k]
            if len(a) == 2 and isinstance(a[0], DayO) and isinstance(a[1], DayO):
                x, y = a[0].t.s, a[1].t.s
                r = {"<LunarDay as PartialEq>::ne": "(not (= %s %s))", "<LunarDay as PartialEq>::eq": "(= %s %s)", "LunarDay::is_before": "(< %s %s)", "LunarDay::is_after": "(> %s %s)"}.get(callee)
                if r:
                    return True, T(r % (x, y), "Bool")          # 02.a: lunar before/after = chronological order; equality = same day
            return base(c, fr, callee, args, path)
        model.call = call
        paths = ctx.run(fn, [("refrec", a_rec), b_rec])
        pre = []
        for nm in ("a", "b"):
            h, mi, s = hms[nm]
            pre += ["(<= 0 %s 23)" % h.s, "(<= 0 %s 59)" % mi.s, "(<= 0 %s 59)" % s.s]
        pre += ["(<= 0 %s 4000000)" % dA.s, "(<= 0 %s 4000000)" % dB.s]
        inst = lambda d, v: "(+ (* 86400 %s) (* 3600 %s) (* 60 %s) %s)" % (d.s, v[0].s, v[1].s, v[2].s)
        rel = "<" if which == "is_before" else ">"

        def shape(p):
            return None if isinstance(p.ret, T) and p.ret.sort == "Bool" else "result is not a Bool"
        return ctx, paths, pre, (lambda p: [("chronological", "(= %s (%s %s %s))" % (p.ret.s, rel, inst(dA, hms["a"]), inst(dB, hms["b"])))]), shape

    def replay(eng, model):
        nat = eng.native("lunar_hour_order_scan")
        if nat in ("NONE", "PANIC", "UNKNOWN", ""):
            return nat == "PANIC", "native scan: " + (nat or "no output")
        return True, "lunar hours out of chronological order: " + nat

    r = run_kernel(eng, "02.e/B/lunar-hour-%s" % which.replace("_", "-"), "02.e", "every pair of lunar hours (any two days, all clock fields)", build, None, replay)
    return _finish(r, holder["ctx"]) if "ctx" in holder else r
