"""Engine B kernels for list-returning accessors (C13): the listing loops of the real code are unrolled (bound proved) and the
returned vector is compared element by element with the specification."""
import os
from . import mir as M
from .mir import T, I, Rec, Ref, Opaque, Unsupported, VecV
from .kernels import run_kernel, struct_fields, REPO
from .pillars import _ctx, _finish


def _replay(what):
    def replay(eng, model):
        nat = eng.native("lunar_lists_scan")
        if nat in ("NONE", "PANIC", "UNKNOWN", ""):
            return nat == "PANIC", "native scan: " + (nat or "no output")
        return True, what + ": " + nat
    return replay


def k_lunar_day_hours(eng):
    """LunarDay::get_hours: 13 slots of this lunar day — 00:00 (early Zi), then 01:00, 03:00, ... 23:00 (late Zi last)"""
    holder = {}

    def build(eng):
        fields = struct_fields(os.path.join(REPO, "src/tyme/lunar.rs"), "LunarDay")
        fn = M.find_fn(eng.fns, "get_hours", "&LunarDay")
        ctx = _ctx(eng, {})
        ctx.max_unroll = 15
        holder.update(ctx=ctx)
        rec = Rec(ctx, "self", "LunarDay")
        day = rec.field(fields.index("day"), "usize")
        year = ctx.fresh_value("year", "isize")
        mw = ctx.fresh_value("month_with_leap", "isize")
        model = ctx.model
        base = model.call
        made = {}

        def call(c, fr, callee, args, path):
            a = [model.deref(c, x) for x in args]
            if a and a[0] is rec:
                r = {"LunarDay::get_year": year, "LunarDay::get_month": mw, "LunarDay::get_day": day}.get(callee)
                if r is not None:
                    return True, r
            if callee == "LunarHour::from_ymd_hms" and len(a) == 6 and all(isinstance(x, T) for x in a):
                r = Rec(c, "hour", "LunarHour")
                made[id(r)] = a
                return True, r
            return base(c, fr, callee, args, path)
        model.call = call
        paths = ctx.run(fn, [("refrec", rec)])
        pre = ["(<= 1 %s 30)" % day.s, "(<= (- 1) %s 9999)" % year.s, "(<= (- 12) %s 12)" % mw.s]

        def shape(p):
            if getattr(p, "cut", False):
                return None
            if not isinstance(p.ret, VecV):
                return "result is not the vector that was filled"
            return None if all(id(x) in made for x in p.ret.items) else "an element is not built by LunarHour::from_ymd_hms"

        def posts(p):
            if getattr(p, "cut", False):
                return []
            out = [("length", "true" if len(p.ret.items) == 13 else "false")]
            for k, x in enumerate(p.ret.items[:13]):
                y, m, d, h, mi, s = made[id(x)]
                out.append(("slot-%d" % k, "(and (= %s %s) (= %s %s) (= %s %s) (= %s %d) (= %s 0) (= %s 0))" % (y.s, year.s, m.s, mw.s, d.s, day.s, h.s, 0 if k == 0 else 2 * k - 1, mi.s, s.s)))
            return out
        return ctx, paths, pre, posts, shape

    r = run_kernel(eng, "13.e/B/lunar-day-hours", "13.e", "every lunar day; listing loop unrolled (bound proved)", build, None, _replay("a lunar day does not list exactly its 13 double-hour slots"))
    return _finish(r, holder["ctx"]) if "ctx" in holder else r


def k_sixty_day_hours(eng):
    """SixtyCycleDay::get_hours: 12 slots, the k-th being the instant view 7200 k seconds after 23:00 of the previous civil day — in EVERY
    component (instant, day-level pillars, hour pillar), whether a slot is built by the constructor, by stepping, or assembled by hand"""
    holder = {}

    class PrevDay:
        pass

    class Part(T):
        __slots__ = ("what",)

    class InstV:
        def __init__(self, t):
            self.t = t

    SUB = {"day": struct_fields(os.path.join(REPO, "src/tyme/sixtycycle.rs"), "SixtyCycleDay")}

    class PartOf(Rec):
        """component f (a path such as 'day' or 'day.month') of the instant view at offset t; reading a field of it gives the sub-component"""
        def __init__(self, f, t):
            self.f, self.t, self.fields, self.name, self.ty = f, t, {}, "part:" + f, None

        def field(self, k, ty):
            names = SUB.get(self.f)
            return PartOf("%s.%s" % (self.f, names[k] if names and k < len(names) else k), self.t)

    def build(eng):
        fields = struct_fields(os.path.join(REPO, "src/tyme/sixtycycle.rs"), "SixtyCycleDay")
        hfields = struct_fields(os.path.join(REPO, "src/tyme/sixtycycle.rs"), "SixtyCycleHour")
        fn = M.find_fn(eng.fns, "get_hours", "&SixtyCycleDay")
        ctx = _ctx(eng, {})
        ctx.max_unroll = 14
        holder.update(ctx=ctx)
        rec = Rec(ctx, "self", "SixtyCycleDay")
        sd = rec.field(fields.index("solar_day"), "SolarDay")
        # the day-level view's own pillars, should a body copy them into the slots: components of a view at an offset nothing is known about
        DL = ctx.fresh_value("offset_at_which_an_instant_view_would_have_the_day_level_pillars", "isize")
        for f in ("month", "day"):
            rec.fields[fields.index(f)] = PartOf("day." + f, DL)
        model = ctx.model
        base = model.call
        prev = PrevDay()

        def view_at(c, t):
            r = Rec(c, "view", "SixtyCycleHour")
            for k, f in enumerate(hfields):
                r.fields[k] = InstV(t) if f == "solar_time" else PartOf(f, t)
            r.is_view = True
            return r

        def flat(x, path):
            """component at `path` -> {leaf path: offset term} or None"""
            if path == "solar_time":
                return {path: x.t} if isinstance(x, InstV) else None
            if isinstance(x, PartOf):
                return {path: x.t} if x.f == path else None
            if path == "hour" and type(x).__name__ == "Obj" and getattr(x, "kind", None) == "SixtyCycle":
                return {}       # an hour pillar assembled by name: its value is 09.a's subject, not checked here
            if isinstance(x, Rec) and getattr(x, "named", None) and path in SUB and set(x.named) == set(SUB[path]):
                out = {}
                for f, y in x.named.items():
                    sub = flat(y, path + "." + f)
                    if sub is None:
                        return None
                    out.update(sub)
                return out
            return None

        def comps(v):
            """-> {leaf path: offset term} or None"""
            if isinstance(v, PartOf):
                return None
            if isinstance(v, Rec) and getattr(v, "is_view", False):
                src = {f: v.fields[k] for k, f in enumerate(hfields)}
            elif isinstance(v, Rec) and getattr(v, "named", None) and set(v.named) == set(hfields):
                src = v.named
            else:
                return None
            out = {}
            for f, x in src.items():
                sub = flat(x, f)
                if sub is None:
                    return None
                out.update(sub)
            return out

        def call(c, fr, callee, args, path):
            a = [model.deref(c, x) for x in args]
            if callee == "<SolarDay as Tyme>::next" and a[0] is sd and isinstance(a[1], T) and a[1].c == -1:
                return True, prev
            if callee in ("SolarDay::get_year", "SolarDay::get_month", "SolarDay::get_day") and a[0] is prev:
                nm = c.sym(callee.split("::")[1])
                c.inputs[nm] = ("Int", -(1 << 40), 1 << 40)
                t = Part(nm, "Int")
                t.what = callee.split("::")[1]
                return True, t
            if callee == "SolarTime::from_ymd_hms" and len(a) == 6:
                if not (all(isinstance(x, Part) for x in a[:3]) and [x.what for x in a[:3]] == ["get_year", "get_month", "get_day"] and all(isinstance(x, T) for x in a[3:])):
                    raise Unsupported("an instant that is not on the previous civil day is built")
                return True, InstV(T("(+ (* 3600 (- %s 23)) (* 60 %s) %s)" % (a[3].s, a[4].s, a[5].s), "Int"))
            if callee == "SixtyCycleHour::from_solar_time" and isinstance(a[0], InstV):
                return True, view_at(c, a[0].t)
            if callee == "<SolarTime as Tyme>::next" and isinstance(a[0], InstV) and isinstance(a[1], T):
                return True, InstV(T("(+ %s %s)" % (a[0].t.s, a[1].s), "Int"))            # 12.a
            if callee == "SolarTime::get_solar_day" and isinstance(a[0], InstV):
                return True, PartOf("day.solar_day", a[0].t)       # the civil day of the instant: what from_solar_time stores there
            if callee == "<SixtyCycleHour as Tyme>::next" and isinstance(a[1], T) and comps(a[0]) is not None:
                return True, view_at(c, T("(+ %s %s)" % (comps(a[0])["solar_time"].s, a[1].s), "Int"))       # 11.j
            if callee == "<SixtyCycle as Tyme>::next" and isinstance(a[0], PartOf) and a[0].f == "hour" and isinstance(a[1], T):
                return True, PartOf("hour", T("(+ %s (* 7200 %s))" % (a[0].t.s, a[1].s), "Int"))     # the hour pillar advances one per double hour (09.a)
            if callee.endswith(" as Clone>::clone") and (isinstance(a[0], (PartOf, InstV)) or comps(a[0]) is not None):
                return True, a[0]
            if comps(a[0]) is not None if a else False:
                got = {"SixtyCycleHour::get_solar_time": "solar_time", "SixtyCycleHour::get_sixty_cycle_day": "day", "SixtyCycleHour::get_sixty_cycle": "hour"}.get(callee)
                if got:
                    t = comps(a[0])[got]
                    return True, (InstV(t) if got == "solar_time" else PartOf(got, t))
            return base(c, fr, callee, args, path)
        model.call = call
        paths = ctx.run(fn, [("refrec", rec)])

        def shape(p):
            if getattr(p, "cut", False):
                return None
            if not isinstance(p.ret, VecV):
                return "result is not the vector that was filled"
            return None if all(comps(x) is not None for x in p.ret.items) else "an element is not an instant view derived from the previous day's 23:00"

        def posts(p):
            if getattr(p, "cut", False):
                return []
            out = [("length", "true" if len(p.ret.items) == 12 else "false")]
            for k, x in enumerate(p.ret.items[:12]):
                for f, t in comps(x).items():
                    out.append(("slot-%d-%s" % (k, f), "(= %s %d)" % (t.s, 7200 * k)))
            return out
        return ctx, paths, [], posts, shape

    r = run_kernel(eng, "13.f/B/sixty-day-hours", "13.f", "every sexagenary day; listing loop unrolled (bound proved)", build, None, _replay("a sexagenary day does not list exactly its 12 double-hours"))
    return _finish(r, holder["ctx"]) if "ctx" in holder else r


def k_sixty_month_days(eng):
    """SixtyCycleMonth::get_days: the days from its Jie day to the day before the next Jie day, in order"""
    holder = {}

    class DayV:
        def __init__(self, t):
            self.t = t

    class MonthOf:
        def __init__(self, t):
            self.t = t

    def build(eng):
        fn = M.find_fn(eng.fns, "get_days", "&SixtyCycleMonth")
        ctx = _ctx(eng, {})
        ctx.max_unroll = 35
        holder.update(ctx=ctx)
        rec = Rec(ctx, "self", "SixtyCycleMonth")
        FD = ctx.fresh_value("jie_day", "isize")
        ND = ctx.fresh_value("next_jie_day", "isize")
        model = ctx.model
        base = model.call

        def call(c, fr, callee, args, path):
            a = [model.deref(c, x) for x in args]
            if callee == "SixtyCycleMonth::get_first_day" and a[0] is rec:
                return True, DayV(FD)
            if callee == "SixtyCycleDay::get_sixty_cycle_month" and isinstance(a[0], DayV):
                return True, MonthOf(a[0].t)
            if callee in ("<SixtyCycleMonth as PartialEq>::eq", "<SixtyCycleMonth as PartialEq>::ne") and isinstance(a[0], MonthOf) and a[1] is rec:
                e = "(and (<= %s %s) (< %s %s))" % (FD.s, a[0].t.s, a[0].t.s, ND.s)      # 08.d: the month pillar of a day turns at each Jie day
                return True, T(e if callee.endswith("eq") else "(not %s)" % e, "Bool")
            if callee == "<SixtyCycleDay as Tyme>::next" and isinstance(a[0], DayV) and isinstance(a[1], T):
                return True, DayV(T("(+ %s %s)" % (a[0].t.s, a[1].s), "Int"))        # 11.j
            if callee == "<SixtyCycleDay as Clone>::clone" and isinstance(a[0], DayV):
                return True, a[0]
            return base(c, fr, callee, args, path)
        model.call = call
        paths = ctx.run(fn, [("refrec", rec)])
        pre = ["(<= 1721424 %s 5373484)" % FD.s, "(<= 28 (- %s %s) 33)" % (ND.s, FD.s)]

        def shape(p):
            if getattr(p, "cut", False):
                return None
            if not isinstance(p.ret, VecV):
                return "result is not the vector that was filled"
            return None if all(isinstance(x, DayV) for x in p.ret.items) else "an element is not a day stepped from the month's first day"

        def posts(p):
            if getattr(p, "cut", False):
                return []
            return [("length", "(= %d (- %s %s))" % (len(p.ret.items), ND.s, FD.s))] + [("day-%d" % k, "(= %s (+ %s %d))" % (x.t.s, FD.s, k)) for k, x in enumerate(p.ret.items)]
        return ctx, paths, pre, posts, shape

    r = run_kernel(eng, "13.g/B/sixty-month-days", "13.g", "every Jie day, next Jie day 28..33 days later; listing loop unrolled 35 times with the bound proved", build, None,
                   _replay("a sexagenary month does not list exactly the days from its Jie day to the day before the next"))
    return _finish(r, holder["ctx"]) if "ctx" in holder else r


def _generic(eng, kid, clause, bound, owner, method, nargs, unroll, setup, expect, replay_what, scan="lists2_scan"):
    """run owner::method with the callee models of `setup`; `expect(ctx, items, extra)` -> (shape error | None, [(name, smt)])"""
    holder = {}

    def build(eng):
        fn = M.find_fn(eng.fns, method, "&" + owner, nargs)
        ctx = _ctx(eng, {})
        ctx.max_unroll = unroll
        holder.update(ctx=ctx)
        rec = Rec(ctx, "self", owner)
        args, pre, extra, hook = setup(ctx, rec)
        model = ctx.model
        base = model.call

        def call(c, fr, callee, a0, path):
            a = [model.deref(c, x) for x in a0]
            ok, v = hook(c, callee, a)
            if ok:
                return True, v
            return base(c, fr, callee, a0, path)
        model.call = call
        paths = ctx.run(fn, [("refrec", rec)] + args)

        def shape(p):
            if getattr(p, "cut", False):
                return None
            if not isinstance(p.ret, VecV):
                return "result is not the vector that was filled"
            return expect(ctx, p.ret.items, extra)[0]

        def posts(p):
            if getattr(p, "cut", False):
                return []
            return expect(ctx, p.ret.items, extra)[1]
        return ctx, paths, pre, posts, shape

    def replay(eng, model):
        nat = eng.native(scan)
        if nat in ("NONE", "PANIC", "UNKNOWN", ""):
            return nat == "PANIC", "native scan: " + (nat or "no output")
        return True, replay_what + ": " + nat
    r = run_kernel(eng, kid, clause, bound, build, None, replay)
    return _finish(r, holder["ctx"]) if "ctx" in holder else r


class _Day:
    def __init__(self, t):
        self.t = t


def k_week_days(eng, lunar):
    """the seven days of a week: its first day and the six days after it, in order"""
    W, D = ("LunarWeek", "LunarDay") if lunar else ("SolarWeek", "SolarDay")

    def setup(ctx, rec):
        F = ctx.fresh_value("first_day", "isize")
        # attributes of the first day, for bodies that rebuild the following days from (year, month, day) instead of stepping:
        # the first day is day `dom` of a lunar month (signed number msigned = -munsigned for a leap month) of `mlen` days
        dom, mlen, ytag, mu, leap = (ctx.fresh_value(n, t) for n, t in (("day_of_month_of_the_first_day", "usize"), ("length_of_its_month", "usize"), ("year_of_its_month", "isize"),
                                                                          ("number_of_its_month", "usize"), ("its_month_is_leap", "bool")))
        ms = "(ite %s (- %s) %s)" % (leap.s, mu.s, mu.s)
        mon = Rec(ctx, "month_of_the_first_day", "LunarMonth")

        def hook(c, callee, a):
            if lunar and a and isinstance(a[0], _Day) and a[0].t is F:
                if callee == "LunarDay::get_lunar_month":
                    return True, mon
                r = {"LunarDay::get_day": dom, "LunarDay::get_year": ytag, "LunarDay::get_month": T(ms, "Int")}.get(callee)
                if r is not None:
                    return True, r
            if lunar and a and a[0] is mon:
                r = {"LunarMonth::get_day_count": mlen, "LunarMonth::get_year": ytag, "LunarMonth::get_month": mu, "LunarMonth::get_month_with_leap": T(ms, "Int"), "LunarMonth::is_leap": leap}.get(callee)
                if r is not None:
                    return True, r
            if lunar and callee in ("LunarDay::from_ymd", "LunarDay::new") and len(a) == 3 and all(isinstance(x, T) for x in a):
                same = "(and (= %s %s) (= %s %s) (<= 1 %s) (<= %s %s))" % (a[0].s, ytag.s, a[1].s, ms, a[2].s, a[2].s, mlen.s)
                other = c.fresh_value("day_number_of_some_other_lunar_day", "isize")
                return True, _Day(T("(ite %s (+ %s (- %s %s)) %s)" % (same, F.s, a[2].s, dom.s, other.s), "Int"))
            if callee == W + "::get_first_day" and a[0] is rec:
                d0 = _Day(F)
                d0.t = F
                return True, d0
            if callee == "<%s as Tyme>::next" % D and isinstance(a[0], _Day) and isinstance(a[1], T):
                return True, _Day(T("(+ %s %s)" % (a[0].t.s, a[1].s), "Int"))      # 01.g / 02.d
            if callee == "<%s as Clone>::clone" % D and isinstance(a[0], _Day):
                return True, a[0]
            return False, None
        return [], ["(<= 1721424 %s 5373484)" % F.s, "(<= 29 %s 30)" % mlen.s, "(<= 1 %s %s)" % (dom.s, mlen.s), "(<= 1 %s 12)" % mu.s, "(<= (- 1) %s 9999)" % ytag.s], F, hook

    def expect(ctx, items, F):
        if not all(isinstance(x, _Day) for x in items):
            return "an element is not a day stepped from the week's first day", []
        return None, [("length", "true" if len(items) == 7 else "false")] + [("day-%d" % k, "(= %s (+ %s %d))" % (x.t.s, F.s, k)) for k, x in enumerate(items[:7])]
    return _generic(eng, "14.h/B/%s-week-days" % ("lunar" if lunar else "civil"), "14.h", "every week; listing loop unrolled (bound proved)", W, "get_days", 1, 9, setup, expect,
                    "a week does not list its first day and the six days after it")


def k_month_weeks(eng, lunar):
    """the weeks of a month: index 0..week count - 1 of this very month with the chosen start weekday, in order"""
    Mo, W = ("LunarMonth", "LunarWeek") if lunar else ("SolarMonth", "SolarWeek")
    mget = "LunarMonth::get_month_with_leap" if lunar else "SolarMonth::get_month"

    def setup(ctx, rec):
        start = ctx.fresh_value("start", "usize")
        count = ctx.fresh_value("week_count", "usize")
        year = ctx.fresh_value("year", "isize")
        month = ctx.fresh_value("month", "isize")
        made = {}
        if not lunar:
            fields = struct_fields(os.path.join(REPO, "src/tyme/solar.rs"), "SolarMonth")
            rec.fields[fields.index("month")] = month

        def hook(c, callee, a):
            if a and a[0] is rec:
                if callee == Mo + "::get_week_count" and isinstance(a[1], T) and a[1].s == start.s:
                    return True, count
                if callee == Mo + "::get_year":
                    return True, year
                if callee == mget:
                    return True, month
            if callee == W + "::from_ym" and len(a) == 4 and all(isinstance(x, T) for x in a):
                r = Rec(c, "week", W)
                made[id(r)] = a
                return True, r
            return False, None
        return [start], ["(<= 0 %s 6)" % start.s, "(<= 4 %s 6)" % count.s, "(<= (- 1) %s 9999)" % year.s, "(<= (- 12) %s 12)" % month.s], (start, count, year, month, made), hook

    def expect(ctx, items, extra):
        start, count, year, month, made = extra
        if not all(id(x) in made for x in items):
            return "an element is not built by %s::from_ym" % W, []
        out = [("length", "(= %d %s)" % (len(items), count.s))]
        for k, x in enumerate(items):
            y, m, i, s = made[id(x)]
            out.append(("week-%d" % k, "(and (= %s %s) (= %s %s) (= %s %d) (= %s %s))" % (y.s, year.s, m.s, month.s, i.s, k, s.s, start.s)))
        return None, out
    return _generic(eng, "14.i/B/%s-month-weeks" % ("lunar" if lunar else "civil"), "14.i", "every month, start weekday, week count 4..6; listing loop unrolled (bound proved)", Mo, "get_weeks", 2, 9,
                    setup, expect, "a month does not list exactly its weeks")


def k_sixty_year_months(eng):
    """SixtyCycleYear::get_months: its first month and the 11 months after it, in order"""
    class Mon:
        def __init__(self, t):
            self.t = t

    def setup(ctx, rec):
        def hook(c, callee, a):
            if callee == "SixtyCycleYear::get_first_month" and a[0] is rec:
                return True, Mon(I(0))
            if callee == "<SixtyCycleMonth as Tyme>::next" and isinstance(a[0], Mon) and isinstance(a[1], T):
                return True, Mon(T("(+ %s %s)" % (a[0].t.s, a[1].s), "Int"))      # 11.g
            if callee == "<SixtyCycleMonth as Clone>::clone" and isinstance(a[0], Mon):
                return True, a[0]
            return False, None
        return [], [], None, hook

    def expect(ctx, items, extra):
        if not all(isinstance(x, Mon) for x in items):
            return "an element is not a month stepped from the year's first month", []
        return None, [("length", "true" if len(items) == 12 else "false")] + [("month-%d" % k, "(= %s %d)" % (x.t.s, k)) for k, x in enumerate(items[:12])]
    return _generic(eng, "13.h/B/sixty-year-months", "13.h", "every sexagenary year; listing loop unrolled (bound proved)", "SixtyCycleYear", "get_months", 1, 14, setup, expect,
                    "a sexagenary year does not list its first month and the 11 after it")


class _Mon:
    def __init__(self, k):
        self.k = k


def k_lunar_year_months(eng, count):
    """LunarYear::get_months: exactly the `count` (12 or 13) months that carry this year's number, in order, starting from month 1.
    Months are objects on the month line (stepping by one: 11.e); M(0) = from_ym(year, 1); M(k) carries this year's number exactly for 0 <= k < count."""
    def setup(ctx, rec):
        yfields = struct_fields(os.path.join(REPO, "src/tyme/lunar.rs"), "LunarYear")
        year = rec.field(yfields.index("year"), "isize")

        def hook(c, callee, a):
            if callee == "LunarYear::get_year" and a[0] is rec:
                return True, year
            if callee == "LunarMonth::from_ym" and len(a) == 2 and isinstance(a[0], T) and a[0].s == year.s and isinstance(a[1], T) and a[1].c == 1:
                return True, _Mon(0)
            if callee == "LunarMonth::get_year" and isinstance(a[0], _Mon):
                k = a[0].k
                return True, (year if 0 <= k < count else T("(+ %s %d)" % (year.s, 1 if k >= count else -1), "Int"))
            if callee == "<LunarMonth as Tyme>::next" and isinstance(a[0], _Mon) and isinstance(a[1], T) and a[1].c is not None:
                return True, _Mon(a[0].k + a[1].c)
            if callee == "<LunarMonth as Clone>::clone" and isinstance(a[0], _Mon):
                return True, a[0]
            return False, None
        return [], ["(<= (- 1) %s 9999)" % year.s], None, hook

    def expect(ctx, items, extra):
        if not all(isinstance(x, _Mon) for x in items):
            return "an element is not a month stepped from month 1 of this year", []
        return None, [("length", "true" if len(items) == count else "false")] + [("month-%d" % k, "true" if x.k == k else "false") for k, x in enumerate(items)]
    return _generic(eng, "13.c/B/lunar-year-months/%d" % count, "13.c", "every year, a year of %d months; listing loop unrolled (bound proved)" % count, "LunarYear", "get_months", 1, 16, setup, expect,
                    "a lunar year does not list exactly its months", scan="lunar_lists_scan")


def k_lunar_year_days(eng, count):
    """LunarYear::get_day_count = the sum of the day counts of the listed months (hence, where months tile, the distance between successive new-year days)"""
    holder = {}

    def build(eng):
        fn = M.find_fn(eng.fns, "get_day_count", "&LunarYear")
        ctx = _ctx(eng, {})
        ctx.max_unroll = 16
        holder.update(ctx=ctx)
        rec = Rec(ctx, "self", "LunarYear")
        lens = [ctx.fresh_value("days_of_month_%d" % k, "usize") for k in range(count)]
        model = ctx.model
        base = model.call

        def call(c, fr, callee, args, path):
            a = [model.deref(c, x) for x in args]
            if callee == "LunarYear::get_months" and a[0] is rec:
                return True, VecV([_Mon(k) for k in range(count)])      # 13.c
            if callee == "LunarMonth::get_day_count" and isinstance(a[0], _Mon):
                return True, lens[a[0].k]
            return base(c, fr, callee, args, path)
        model.call = call
        paths = ctx.run(fn, [("refrec", rec)])
        pre = ["(<= 29 %s 30)" % x.s for x in lens]

        def shape(p):
            return None if getattr(p, "cut", False) or isinstance(p.ret, T) else "result is not a number"
        return ctx, paths, pre, (lambda p: [] if getattr(p, "cut", False) else [("sum-of-the-months", "(= %s (+ %s))" % (p.ret.s, " ".join(x.s for x in lens))),
                                                                              ("year-length", "(<= %d %s %d)" % (29 * count, p.ret.s, 30 * count))]), shape

    def replay(eng, model):
        nat = eng.native("lunar_lists_scan")
        if nat in ("NONE", "PANIC", "UNKNOWN", ""):
            return nat == "PANIC", "native scan: " + (nat or "no output")
        return True, "lunar year day count: " + nat
    r = run_kernel(eng, "03.d/B/lunar-year-days/%d" % count, "03.d", "a year of %d months of 29..30 days each; summing loop unrolled (bound proved)" % count, build, None, replay)
    return _finish(r, holder["ctx"]) if "ctx" in holder else r
