"""Engine B kernels for the almanac cycles (C17)."""
import os
from . import mir as M
from .mir import T, I, Rec, Opaque, Unsupported
from .kernels import run_kernel, struct_fields, REPO
from .objmodel import Obj
from .pillars import _ctx, _finish


def _override(ctx, table):
    model = ctx.model
    base = model.call

    def call(c, fr, callee, args, path):
        if callee in table:
            return True, table[callee]
        return base(c, fr, callee, args, path)
    model.call = call


def _scan_replay(kind_no, what):
    def replay(eng, model):
        nat = eng.native("almanac_scan", kind_no)
        if nat in ("NONE", "PANIC", "UNKNOWN", ""):
            return nat == "PANIC", "native scan of 900 real days: " + (nat or "no output")
        return True, "%s violated on a real day: %s" % (what, nat)
    return replay


def _kind(p, kind):
    if not (isinstance(p.ret, Obj) and p.ret.kind == kind):
        return "result is not a modelled %s" % kind
    return None


def k_mansion(eng, route):
    """28 mansions: route 'LunarDay' or 'SixtyCycleDay'.  Day number N arbitrary; weekday (N+1) mod 7 [07.a], day pillar (N+49) mod 60 [07.c]."""
    holder = {}

    def build(eng):
        fn = M.find_fn(eng.fns, "get_twenty_eight_star", "&" + route)
        ctx = _ctx(eng, {})
        N = ctx.fresh_value("day_number", "isize")
        holder.update(ctx=ctx, N=N)
        wk = Obj("Week", T("(mod (+ %s 1) 7)" % N.s, "Int"))
        dp = Obj("SixtyCycle", T("(mod (+ %s 49) 60)" % N.s, "Int"))
        if route == "LunarDay":
            rec = Rec(ctx, "self", "LunarDay")
            _override(ctx, {"SolarDay::get_week": wk, "LunarDay::get_sixty_cycle": dp, "LunarDay::get_solar_day": Rec(ctx, "solar_day")})
        else:
            fields = struct_fields(os.path.join(REPO, "src/tyme/sixtycycle.rs"), "SixtyCycleDay")
            rec = Rec(ctx, "self", "SixtyCycleDay")
            rec.fields[fields.index("day")] = dp
            _override(ctx, {"SolarDay::get_week": wk})
        paths = ctx.run(fn, [("refrec", rec)])
        # the function sees N only through (N+1) mod 7 and (N+49) mod 60: one period of 420 days covers every consistent pair
        pre = ["(<= 2451545 %s 2451964)" % N.s]

        def posts(p):
            return [("luminary", "(= (mod (+ %s 4) 7) (mod (+ %s 1) 7))" % (p.ret.idx.s, N.s)),
                    ("one-per-day", "(= %s (mod (+ %s 11) 28))" % (p.ret.idx.s, N.s))]
        return ctx, paths, pre, posts, lambda p: _kind(p, "TwentyEightStar")

    r = run_kernel(eng, "17.e/B/mansion/%s" % route, "17.e", "every (weekday, day pillar) pair a day number can have: day numbers 2451545..2451964, one full 420-day period", build, None,
                   _scan_replay(4 if route == "LunarDay" else 5, "28-mansion rule (+1 per day from the library's own anchor, luminary = weekday)"))
    return _finish(r, holder["ctx"]) if "ctx" in holder else r


def k_duty_twelve(eng, which):
    """SixtyCycleDay::get_duty / get_twelve_star on arbitrary (month pillar, day pillar)."""
    holder = {}
    method, kind = {"duty": ("get_duty", "Duty"), "twelve": ("get_twelve_star", "TwelveStar")}[which]

    def build(eng):
        fields = struct_fields(os.path.join(REPO, "src/tyme/sixtycycle.rs"), "SixtyCycleDay")
        mfields = struct_fields(os.path.join(REPO, "src/tyme/sixtycycle.rs"), "SixtyCycleMonth")
        fn = M.find_fn(eng.fns, method, "&SixtyCycleDay")
        ctx = _ctx(eng, {"SixtyCycleDay::get_month": ("get_month", "&SixtyCycleDay", None), "SixtyCycleMonth::get_sixty_cycle": ("get_sixty_cycle", "&SixtyCycleMonth", None)})
        rec = Rec(ctx, "self", "SixtyCycleDay")
        d = ctx.fresh_value("day_pillar", "usize")
        m = ctx.fresh_value("month_pillar", "usize")
        rec.fields[fields.index("day")] = Obj("SixtyCycle", d)
        mrec = Rec(ctx, "self.month", "SixtyCycleMonth")
        mrec.fields[mfields.index("month")] = Obj("SixtyCycle", m)
        rec.fields[fields.index("month")] = mrec
        holder.update(ctx=ctx)
        paths = ctx.run(fn, [("refrec", rec)])
        pre = ["(<= 0 %s 59)" % d.s, "(<= 0 %s 59)" % m.s]
        db, mb = "(mod %s 12)" % d.s, "(mod %s 12)" % m.s

        def posts(p):
            if which == "duty":
                # 建 (index 0) exactly when the day branch equals the month branch; one officer per branch step
                return [("jian", "(= (= %s 0) (= %s %s))" % (p.ret.idx.s, db, mb)), ("advance", "(= %s (mod (- %s %s) 12))" % (p.ret.idx.s, db, mb))]
            # 青龙 starts on: 子午月 申, 丑未月 戌, 寅申月 子, 卯酉月 寅, 辰戌月 辰, 巳亥月 午; then advances with the branch
            s = "(ite (= (mod %s 6) 0) 8 (ite (= (mod %s 6) 1) 10 (ite (= (mod %s 6) 2) 0 (ite (= (mod %s 6) 3) 2 (ite (= (mod %s 6) 4) 4 6)))))" % (mb, mb, mb, mb, mb)
            return [("spirit", "(= %s (mod (- %s %s) 12))" % (p.ret.idx.s, db, s))]
        return ctx, paths, pre, posts, lambda p: _kind(p, kind)

    r = run_kernel(eng, "17.g/B/%s" % which, "17.g", "all 60 month pillars x 60 day pillars", build, None, _scan_replay(0 if which == "duty" else 1, "day officer rule" if which == "duty" else "day spirit rule"))
    return _finish(r, holder["ctx"]) if "ctx" in holder else r


def k_hour_twelve(eng):
    holder = {}

    def build(eng):
        fields = struct_fields(os.path.join(REPO, "src/tyme/sixtycycle.rs"), "SixtyCycleHour")
        dfields = struct_fields(os.path.join(REPO, "src/tyme/sixtycycle.rs"), "SixtyCycleDay")
        fn = M.find_fn(eng.fns, "get_twelve_star", "&SixtyCycleHour")
        ctx = _ctx(eng, {"SixtyCycleHour::get_day": ("get_day", "&SixtyCycleHour", None), "SixtyCycleDay::get_sixty_cycle": ("get_sixty_cycle", "&SixtyCycleDay", None)})
        rec = Rec(ctx, "self", "SixtyCycleHour")
        h = ctx.fresh_value("hour_pillar", "usize")
        d = ctx.fresh_value("day_pillar", "usize")
        rec.fields[fields.index("hour")] = Obj("SixtyCycle", h)
        drec = Rec(ctx, "self.day", "SixtyCycleDay")
        drec.fields[dfields.index("day")] = Obj("SixtyCycle", d)
        rec.fields[fields.index("day")] = drec
        holder.update(ctx=ctx)
        paths = ctx.run(fn, [("refrec", rec)])
        pre = ["(<= 0 %s 59)" % h.s, "(<= 0 %s 59)" % d.s]
        hb, db = "(mod %s 12)" % h.s, "(mod %s 12)" % d.s

        def posts(p):
            s = "(ite (= (mod %s 6) 0) 8 (ite (= (mod %s 6) 1) 10 (ite (= (mod %s 6) 2) 0 (ite (= (mod %s 6) 3) 2 (ite (= (mod %s 6) 4) 4 6)))))" % (db, db, db, db, db)
            return [("spirit", "(= %s (mod (- %s %s) 12))" % (p.ret.idx.s, hb, s))]
        return ctx, paths, pre, posts, lambda p: _kind(p, "TwelveStar")

    r = run_kernel(eng, "17.g/B/hour-twelve", "17.g", "all 60 day pillars x 60 hour pillars", build, None, _scan_replay(3, "hour spirit rule (instant-level view)"))
    return _finish(r, holder["ctx"]) if "ctx" in holder else r


def k_lunar_hour_twelve(eng):
    """LunarHour::get_twelve_star: the spirit starts from the branch fixed by the branch of the day the hour belongs to — from 23:00 the
    NEXT day's pillar (the instant-level view's day, assumed here to be the rolled pillar) — and advances with the hour branch"""
    holder = {}

    def build(eng):
        fields = struct_fields(os.path.join(REPO, "src/tyme/lunar.rs"), "LunarHour")
        fn = M.find_fn(eng.fns, "get_twelve_star", "&LunarHour")
        ctx = _ctx(eng, {})
        rec = Rec(ctx, "self", "LunarHour")
        hour = rec.field(fields.index("hour"), "usize")
        dp = ctx.fresh_value("day_pillar", "usize")
        holder.update(ctx=ctx)
        rolled = T("(ite (>= %s 23) (mod (+ %s 1) 60) %s)" % (hour.s, dp.s, dp.s), "Int")
        hb = "(mod (div (+ %s 1) 2) 12)" % hour.s
        hp = ctx.fresh_value("hour_pillar", "usize")
        _override(ctx, {"LunarHour::get_sixty_cycle": Obj("SixtyCycle", hp), "LunarDay::get_sixty_cycle": Obj("SixtyCycle", dp),
                        "LunarHour::get_sixty_cycle_hour": Rec(ctx, "sch"), "SixtyCycleHour::get_day": Obj("SixtyCycle", rolled)})
        paths = ctx.run(fn, [("refrec", rec)])
        pre = ["(<= 0 %s 23)" % hour.s, "(<= 0 %s 59)" % dp.s, "(<= 0 %s 59)" % hp.s, "(= (mod %s 12) %s)" % (hp.s, hb)]
        db = "(mod %s 12)" % rolled.s

        def posts(p):
            s = "(ite (= (mod %s 6) 0) 8 (ite (= (mod %s 6) 1) 10 (ite (= (mod %s 6) 2) 0 (ite (= (mod %s 6) 3) 2 (ite (= (mod %s 6) 4) 4 6)))))" % (db, db, db, db, db)
            return [("spirit", "(= %s (mod (- %s %s) 12))" % (p.ret.idx.s, hb, s))]
        return ctx, paths, pre, posts, lambda p: _kind(p, "TwelveStar")

    r = run_kernel(eng, "17.g/B/lunar-hour-twelve", "17.g", "all 60 day pillars x 24 hours", build, None, _scan_replay(2, "hour spirit rule (lunar-hour route)"))
    return _finish(r, holder["ctx"]) if "ctx" in holder else r


def k_phase_ren(eng, which):
    """moon phase of a lunar day; minor Ren of month / day"""
    holder = {}

    def build(eng):
        fields = struct_fields(os.path.join(REPO, "src/tyme/lunar.rs"), "LunarDay")
        mfields = struct_fields(os.path.join(REPO, "src/tyme/lunar.rs"), "LunarMonth")
        ctx = _ctx(eng, {"LunarDay::get_lunar_month": ("get_lunar_month", "&LunarDay", None), "LunarMonth::get_minor_ren": ("get_minor_ren", "&LunarMonth", None)} if which == "ren-day" else {})
        holder.update(ctx=ctx)
        if which == "ren-month":
            fn = M.find_fn(eng.fns, "get_minor_ren", "&LunarMonth")
            rec = Rec(ctx, "self", "LunarMonth")
            month = rec.field(mfields.index("month"), "usize")
            paths = ctx.run(fn, [("refrec", rec)])
            pre = ["(<= 1 %s 12)" % month.s]
            return ctx, paths, pre, (lambda p: [("ren", "(= %s (mod (- %s 1) 6))" % (p.ret.idx.s, month.s))]), (lambda p: _kind(p, "MinorRen"))
        rec = Rec(ctx, "self", "LunarDay")
        day = rec.field(fields.index("day"), "usize")
        mrec = rec.field(fields.index("month"), "LunarMonth")
        month = mrec.field(mfields.index("month"), "usize")
        pre = ["(<= 1 %s 30)" % day.s, "(<= 1 %s 12)" % month.s]
        if which == "phase":
            fn = M.find_fn(eng.fns, "get_phase", "&LunarDay")
            paths = ctx.run(fn, [("refrec", rec)])
            return ctx, paths, pre, (lambda p: [("phase", "(= %s (- %s 1))" % (p.ret.idx.s, day.s))]), (lambda p: _kind(p, "Phase"))
        fn = M.find_fn(eng.fns, "get_minor_ren", "&LunarDay")
        paths = ctx.run(fn, [("refrec", rec)])
        return ctx, paths, pre, (lambda p: [("ren", "(= %s (mod (+ (- %s 1) (- %s 1)) 6))" % (p.ret.idx.s, month.s, day.s))]), (lambda p: _kind(p, "MinorRen"))

    r = run_kernel(eng, "17.b/B/%s" % which, "17.b", "every month 1..12, every day 1..30", build, None, _scan_replay({"phase": 6, "ren-month": 7, "ren-day": 8}[which], which))
    return _finish(r, holder["ctx"]) if "ctx" in holder else r


def k_year_nine_star(eng, which, lo=-1, hi=9999):
    """flying nine star of the year: descends by one per year, 1864 (上元甲子) = 一白.  Decided on year windows (the whole range in one query is at
    the solvers' 60 s limit); the function has period 180 in the year, every window spans two periods."""
    holder = {}
    src = "src/tyme/lunar.rs" if which == "LunarYear" else "src/tyme/sixtycycle.rs"

    def build(eng):
        fields = struct_fields(os.path.join(REPO, src), which)
        fn = M.find_fn(eng.fns, "get_nine_star", "&" + which)
        ctx = _ctx(eng, {which + "::get_twenty": ("get_twenty", "&" + which, None), which + "::get_sixty_cycle": ("get_sixty_cycle", "&" + which, None),
                         "Twenty::get_sixty": ("get_sixty", "&Twenty", None)})
        rec = Rec(ctx, "self", which)
        year = rec.field(fields.index("year"), "isize")
        holder.update(ctx=ctx)
        paths = ctx.run(fn, [("refrec", rec)])
        pre = ["(<= %s %s %d)" % (("(- %d)" % -lo) if lo < 0 else str(lo), year.s, hi)]
        return ctx, paths, pre, (lambda p: [("descending", "(= %s (mod (- 1864 %s) 9))" % (p.ret.idx.s, year.s))]), (lambda p: _kind(p, "NineStar"))

    def replay(eng, model):
        try:
            y = [int(v) for k, v in model.items() if k.startswith("|self.")][0]
        except Exception as e:
            return False, "model incomplete %r" % e
        nat = eng.native("year_nine_star", y)
        if nat == "PANIC":
            return True, "panic"
        a, b = [int(t) for t in nat.split()]
        got = a if which == "LunarYear" else b
        return (got != (1864 - y) % 9), "%s(%d) nine star index %d, expected %d" % (which, y, got, (1864 - y) % 9)

    r = run_kernel(eng, "17.c/B/year-nine-star/%s/y%d-%d" % (which, lo, hi), "17.c", "every year %d..%d" % (lo, hi), build, None, replay)
    return _finish(r, holder["ctx"]) if "ctx" in holder else r


def k_hour_nine_star(eng, route):
    """flying nine star of the hour: ascending from a winter-solstice day up to the next summer-solstice day (this includes the last days of
    December, on or after that December's solstice), descending otherwise; first hour's star
    by the day branch: 子午卯酉 一白 / 九紫, 辰戌丑未 四绿 / 六白, 寅申巳亥 七赤 / 三碧; one per double hour.  route: LunarHour | SixtyCycleHour"""
    from .seasons import install, TermV
    holder = {}

    def build(eng):
        fn = M.find_fn(eng.fns, "get_nine_star", "&" + route)
        ctx = _ctx(eng, {route + "::get_index_in_day": ("get_index_in_day", "&" + route, None)})
        rec = Rec(ctx, "self", route)
        O = ctx.fresh_value("day_number", "isize")
        year = ctx.fresh_value("year", "isize")
        W = ctx.fresh_value("winter_solstice_day", "isize")
        S = ctx.fresh_value("summer_solstice_day", "isize")
        dp = ctx.fresh_value("day_pillar", "usize")
        hour = ctx.fresh_value("hour", "usize")
        W2 = ctx.fresh_value("next_winter_solstice_day", "isize")
        holder.update(ctx=ctx)
        day_rec = Rec(ctx, "the_solar_day", "SolarDay")

        def termday(ykey, idx):
            if ykey == year.s and idx == 0:
                return W
            if ykey == year.s and idx == 12:
                return S
            if ykey == year.s and idx == 24:
                return W2
            raise Unsupported("unexpected term (%s, %d)" % (ykey, idx))
        install(ctx, day_rec, O, year, termday)
        model = ctx.model
        base = model.call
        if route == "LunarHour":
            fields = struct_fields(os.path.join(REPO, "src/tyme/lunar.rs"), "LunarHour")
            rec.fields[fields.index("hour")] = hour

        def call(c, fr, callee, args, path):
            a = [model.deref(c, x) for x in args]
            if callee in ("LunarDay::get_solar_day", "SolarTime::get_solar_day"):
                return True, day_rec
            if callee in ("LunarDay::get_sixty_cycle", "SixtyCycleHour::get_day"):
                return True, Obj("SixtyCycle", dp)
            if callee == "SolarTime::get_hour":
                return True, hour
            return base(c, fr, callee, args, path)
        model.call = call
        paths = ctx.run(fn, [("refrec", rec)])
        pre = ["(<= 0 %s 23)" % hour.s, "(<= 0 %s 59)" % dp.s, "(<= 170 (- %s %s) 190)" % (S.s, W.s), "(<= 170 (- %s %s) 190)" % (W2.s, S.s), "(<= 2 %s 9998)" % year.s,
               "(<= (+ %s 1) %s (+ %s 20))" % (W.s, O.s, W2.s)]
        # hour index in the day: 23:00 counts as the first double hour of the NEXT day in the instant view (index 0), as index 12 -> 0 on the lunar-hour route
        hi = "(mod (div (+ %s 1) 2) 12)" % hour.s
        asc = "(or (and (<= %s %s) (< %s %s)) (>= %s %s))" % (W.s, O.s, O.s, S.s, O.s, W2.s)
        db = "(mod %s 12)" % dp.s
        first_asc = "(ite (= (mod %s 3) 0) 0 (ite (= (mod %s 3) 1) 3 6))" % (db, db)
        first_desc = "(ite (= (mod %s 3) 0) 8 (ite (= (mod %s 3) 1) 5 2))" % (db, db)

        def posts(p):
            return [("star", "(= %s (ite %s (mod (+ %s %s) 9) (mod (- %s %s) 9)))" % (p.ret.idx.s, asc, first_asc, hi, first_desc, hi))]
        return ctx, paths, pre, posts, lambda p: _kind(p, "NineStar")

    def replay(eng, model):
        nat = eng.native("hour_nine_star_scan", 0 if route == "LunarHour" else 1)
        if nat in ("NONE", "PANIC", "UNKNOWN", ""):
            return nat == "PANIC", "native scan: " + (nat or "no output")
        return True, "hour nine star runs the wrong way: " + nat

    r = run_kernel(eng, "17.f/B/hour-nine-star/%s" % route, "17.f", "every day of a civil year relative to its three solstice days, all 60 day pillars x 24 hours", build, None, replay)
    return _finish(r, holder["ctx"]) if "ctx" in holder else r


def k_hidden_stem_list(eng):
    """EarthBranch::get_hide_heaven_stems: the main stem, then the middle and the residual stem where they exist, each tagged with its kind"""
    holder = {}
    MAIN = [9, 5, 0, 1, 4, 2, 3, 5, 6, 7, 4, 8]
    MID = [-1, 9, 2, -1, 1, 6, 5, 3, 8, -1, 7, 0]
    RES = [-1, 7, 4, -1, 9, 4, -1, 1, 4, -1, 3, -1]

    class VecV:
        def __init__(self, items):
            self.items = items

    def table(tbl, b):
        acc = str(tbl[-1]) if tbl[-1] >= 0 else "(- 1)"
        for k in range(len(tbl) - 2, -1, -1):
            acc = "(ite (= %s %d) %s %s)" % (b, k, str(tbl[k]) if tbl[k] >= 0 else "(- 1)", acc)
        return acc

    def build(eng):
        fn = M.find_fn(eng.fns, "get_hide_heaven_stems", "&EarthBranch")
        ctx = _ctx(eng, {"EarthBranch::get_hide_heaven_stem_main": ("get_hide_heaven_stem_main", "&EarthBranch", None),
                         "EarthBranch::get_hide_heaven_stem_middle": ("get_hide_heaven_stem_middle", "&EarthBranch", None),
                         "EarthBranch::get_hide_heaven_stem_residual": ("get_hide_heaven_stem_residual", "&EarthBranch", None)})
        b = ctx.fresh_value("branch", "usize")
        me = Obj("EarthBranch", b)
        holder.update(ctx=ctx)
        model = ctx.model
        base = model.call

        def call(c, fr, callee, args, path):
            if callee.startswith("Vec::<") and callee.endswith("::new"):
                return True, VecV([])
            if callee.startswith("Vec::<") and callee.endswith("::push"):
                ref = args[0]
                x = model.deref(c, args[1])
                if isinstance(ref, M.Ref) and not ref.proj:
                    cur = ref.frame["vals"].get(ref.local)
                    if isinstance(cur, VecV):
                        ref.frame["vals"][ref.local] = VecV(cur.items + [x])
                        fr["vals"][ref.local] = ref.frame["vals"][ref.local]
                        return True, Opaque("unit")
                raise Unsupported("Vec::push on something that is not a modelled local vector")
            if callee == "HideHeavenStem::new":
                a = [model.deref(c, x) for x in args]
                r = Rec(c, "hidden")
                r.stem, r.kind = a[0], a[1]
                return True, r
            return base(c, fr, callee, args, path)
        model.call = call
        paths = ctx.run(fn, [me])
        pre = ["(<= 0 %s 11)" % b.s]

        def shape(p):
            if not isinstance(p.ret, VecV):
                return "result is not the vector that was filled"
            for it in p.ret.items:
                if not (hasattr(it, "stem") and isinstance(it.stem, Obj) and it.stem.kind == "HeavenStem" and isinstance(it.kind, Rec)):
                    return "an element is not HideHeavenStem::new(stem, kind)"
            return None

        def posts(p):
            items = p.ret.items
            mid, res = table(MID, b.s), table(RES, b.s)
            n_exp = "(+ 1 (ite (>= %s 0) 1 0) (ite (>= %s 0) 1 0))" % (mid, res)
            out = [("length", "(= %d %s)" % (len(items), n_exp))]
            kinds = [it.kind.name.split(":")[-1] for it in items]
            stems = [it.stem.idx.s for it in items]
            if not items or kinds[0] != "MAIN":
                return out + [("first-is-main", "false")]
            out.append(("main", "(= %s %s)" % (stems[0], table(MAIN, b.s))))
            k = 1
            # with a middle stem present it comes second; the residual (if any) last
            if len(items) >= 2:
                out.append(("second", "(ite (>= %s 0) (and %s (= %s %s)) (and %s (= %s %s)))" % (
                    mid, "true" if kinds[1] == "MIDDLE" else "false", stems[1], mid, "true" if kinds[1] == "RESIDUAL" else "false", stems[1], res)))
            if len(items) >= 3:
                out.append(("third", "(and %s (= %s %s))" % ("true" if kinds[2] == "RESIDUAL" else "false", stems[2], res)))
            return out
        return ctx, paths, pre, posts, shape

    def replay(eng, model):
        try:
            b = int(model["|branch|"])
        except Exception as e:
            return False, "model incomplete %r" % e
        nat = eng.native("hidden_stems", b)
        exp = [str(MAIN[b])] + ([str(MID[b])] if MID[b] >= 0 else []) + ([str(RES[b])] if RES[b] >= 0 else [])
        return (nat.split() != exp), "hidden stems of branch %d: %s, expected %s" % (b, nat, " ".join(exp))

    r = run_kernel(eng, "19.f/B/hidden-stem-list", "19.f", "all 12 branches", build, None, replay)
    return _finish(r, holder["ctx"]) if "ctx" in holder else r


def k_day_nine_star(eng, route, early):
    """flying nine star of the day (日家九星): from the Jiazi day nearest the winter solstice the star ascends one per day from 一白 (index 0),
    from the Jiazi day nearest the summer solstice it descends one per day from 九紫 (index 8); a run lasts until the next turning day.
    'Nearest': a solstice day with pillar index p > 29 takes the next Jiazi day (60 - p days later), otherwise the previous one (p days earlier).
    early = False: dates on or after the civil year's first turning day; early = True: the dates before it (they belong to the descending run
    that began at the Jiazi day nearest the PREVIOUS summer solstice).  route: LunarDay | SixtyCycleDay"""
    from .seasons import install
    holder = {}

    def build(eng):
        fn = M.find_fn(eng.fns, "get_nine_star", "&" + route)
        ctx = _ctx(eng, {})
        rec = Rec(ctx, "self", route)
        O = ctx.fresh_value("day_number", "isize")
        year = ctx.fresh_value("year", "isize")
        W = ctx.fresh_value("winter_solstice_day", "isize")
        S = ctx.fresh_value("summer_solstice_day", "isize")
        W2 = ctx.fresh_value("next_winter_solstice_day", "isize")
        Sp = ctx.fresh_value("previous_summer_solstice_day", "isize")
        holder.update(ctx=ctx)
        day_rec = Rec(ctx, "the_solar_day", "SolarDay")
        if route == "SixtyCycleDay":
            fields = struct_fields(os.path.join(REPO, "src/tyme/sixtycycle.rs"), "SixtyCycleDay")
            rec.fields[fields.index("solar_day")] = day_rec

        def termday(ykey, idx):
            if ykey == year.s and idx in (0, 12, 24, -12):
                return {0: W, 12: S, 24: W2, -12: Sp}[idx]
            raise Unsupported("unexpected term (%s, %d)" % (ykey, idx))
        install(ctx, day_rec, O, year, termday)
        model = ctx.model
        base = model.call

        def call(c, fr, callee, args, path):
            if callee in ("LunarDay::get_solar_day", "SixtyCycleDay::get_solar_day"):
                a0 = model.deref(c, args[0])
                if a0 is rec:
                    return True, day_rec
            return base(c, fr, callee, args, path)
        model.call = call
        paths = ctx.run(fn, [("refrec", rec)])

        def nearest(t):
            p = "(mod (+ %s 49) 60)" % t        # 07.c
            return "(+ %s (ite (> %s 29) (- 60 %s) (- %s)))" % (t, p, p, p)
        A, N, A2, Np = nearest(W.s), nearest(S.s), nearest(W2.s), nearest(Sp.s)
        pre = ["(<= 2 %s 9998)" % year.s, "(<= 1721424 %s 5373000)" % W.s, "(<= 170 (- %s %s) 195)" % (S.s, W.s), "(<= 170 (- %s %s) 195)" % (W2.s, S.s), "(<= 170 (- %s %s) 195)" % (W.s, Sp.s),
               "(<= (+ %s 1) %s (+ %s 390))" % (W.s, O.s, W.s)]
        pre.append("(< %s %s)" % (O.s, A) if early else "(>= %s %s)" % (O.s, A))
        if early:
            spec = "(mod (- 8 (- %s %s)) 9)" % (O.s, Np)
            holder["known"] = "(mod (+ 8 (- %s %s)) 9)" % (A, O.s)
        else:
            spec = "(ite (< %s %s) (mod (- %s %s) 9) (ite (< %s %s) (mod (- 8 (- %s %s)) 9) (mod (- %s %s) 9)))" % (O.s, N, O.s, A, O.s, A2, O.s, N, O.s, A2)

        def posts(p):
            return [("star", "(= %s %s)" % (p.ret.idx.s, spec))]
        holder.update(paths=paths, pre=pre)
        return ctx, paths, pre, posts, lambda p: _kind(p, "NineStar")

    def replay(eng, model):
        nat = eng.native("day_nine_star_scan", 1 if early else 0, 0 if route == "LunarDay" else 1)
        if nat in ("NONE", "PANIC", "UNKNOWN", ""):
            return nat == "PANIC", "native scan: " + (nat or "no output")
        return True, "day nine star off its run: " + nat

    kid = "17.%s/B/day-nine-star%s/%s" % ("i" if early else "h", "-before-first-turning-day" if early else "", route)
    r = run_kernel(eng, kid, "17.i" if early else "17.h", "every date of a civil year %s its first turning day, solstice days any table 170..195 days apart, every pillar alignment" % ("before" if early else "on or after"),
                   build, None, replay)
    if early and r["status"] == "failed" and r.get("reproduced") and "paths" in holder:
        # is this exactly the known behaviour (counting back from the first turning day so that the day before it is 一白)?  decided for all inputs
        from . import solve
        ctx = holder["ctx"]
        qs = []
        for k, p in enumerate(holder["paths"]):
            if isinstance(getattr(p, "ret", None), Obj):
                qs.append(("known/%d" % k, holder["pre"] + [c.s for c in p.pc], "(not (= %s %s))" % (p.ret.idx.s, holder["known"]), []))
        final, stats, _ = solve.decide(ctx.inputs, qs)
        r["characterisation"] = {"queries": len(qs), "all_hold": all(v["verdict"] == "holds" for v in final.values()),
                                 "what": "on every path the reported star equals (8 + first turning day - date) mod 9"}
        if qs and r["characterisation"]["all_hold"]:
            r["role"] = "day-nine-star-before-the-first-turning-day-counts-back-from-it"
    return _finish(r, holder["ctx"]) if "ctx" in holder else r


def k_direction_element(eng):
    """Direction::get_element: the element of the trigram seated in each of the nine palaces (Later-Heaven arrangement): 坎 north water,
    坤 south-west earth, 震 east wood, 巽 south-east wood, centre earth, 乾 north-west metal, 兑 west metal, 艮 north-east earth, 离 south fire.
    The name order of both tables is read from the source, the rule is stated on names."""
    import re as _re
    holder = {}
    RULE = {"北": "水", "西南": "土", "东": "木", "东南": "木", "中": "土", "西北": "金", "西": "金", "东北": "土", "南": "火"}

    def names(key):
        src = open(os.path.join(REPO, "src/tyme/culture/mod.rs"), encoding="utf-8").read()
        m = _re.search(r"pub static %s: \[&str; \d+\] = \[(.*?)\];" % key, src, _re.S)
        if not m:
            raise Unsupported(key + " not found in the source")
        return _re.findall(r'"([^"]*)"', m.group(1))

    def build(eng):
        dn, en = names("DIRECTION_NAMES"), names("ELEMENT_NAMES")
        if sorted(dn) != sorted(RULE) or sorted(en) != sorted(set(RULE.values())):
            raise Unsupported("direction / element name tables differ from the nine palaces and five elements")
        fn = M.find_fn(eng.fns, "get_element", "&Direction")
        ctx = _ctx(eng, {})
        holder.update(ctx=ctx)
        d = ctx.fresh_value("direction", "usize")
        paths = ctx.run(fn, [Obj("Direction", d)])
        want = [en.index(RULE[n]) for n in dn]
        acc = str(want[-1])
        for k in range(len(want) - 2, -1, -1):
            acc = "(ite (= %s %d) %d %s)" % (d.s, k, want[k], acc)
        return ctx, paths, ["(<= 0 %s 8)" % d.s], (lambda p: [("element-of-the-palace", "(= %s %s)" % (p.ret.idx.s, acc))]), lambda p: _kind(p, "Element")

    def replay(eng, model):
        try:
            k = int([v for n, v in model.items() if "direction" in n][0])
        except Exception as e:
            return False, "model incomplete %r" % e
        nat = eng.native("direction_element", k)
        dn, en = names("DIRECTION_NAMES"), names("ELEMENT_NAMES")
        want = en.index(RULE[dn[k]])
        return (nat != str(want)), "Direction %s has element index %s, expected %d (%s)" % (dn[k], nat, want, RULE[dn[k]])

    r = run_kernel(eng, "19.i/B/direction-element", "19.i", "all 9 directions", build, None, replay)
    return _finish(r, holder["ctx"]) if "ctx" in holder else r


def k_name_table(eng, owner, method, result, rule, clause="19.k"):
    """owner::method maps cycle `owner` to cycle `result`; `rule` = {owner element name: result element name}, stated on names — the index
    order of both name tables is read from the source"""
    import re as _re
    holder = {}

    def names(key):
        src = open(os.path.join(REPO, "src/tyme/culture/mod.rs"), encoding="utf-8").read()
        m = _re.search(r"pub static %s_NAMES: \[&str; \d+\] = \[(.*?)\];" % key.upper(), src, _re.S)
        if not m:
            raise Unsupported(key + " name table not found in the source")
        return _re.findall(r'"([^"]*)"', m.group(1))

    def build(eng):
        on, rn = names(owner), names(result)
        if sorted(on) != sorted(rule) or not set(rule.values()) <= set(rn):
            raise Unsupported("%s / %s name tables differ from the rule's names" % (owner, result))
        fn = M.find_fn(eng.fns, method, "&" + owner)
        ctx = _ctx(eng, {})
        holder.update(ctx=ctx, on=on, rn=rn)
        d = ctx.fresh_value(owner.lower(), "usize")
        paths = ctx.run(fn, [Obj(owner, d)])
        want = [rn.index(rule[n]) for n in on]
        acc = str(want[-1])
        for k in range(len(want) - 2, -1, -1):
            acc = "(ite (= %s %d) %d %s)" % (d.s, k, want[k], acc)
        return ctx, paths, ["(<= 0 %s %d)" % (d.s, len(on) - 1)], (lambda p: [("by-name", "(= %s %s)" % (p.ret.idx.s, acc))]), lambda p: _kind(p, result)

    def replay(eng, model):
        try:
            k = int([v for n, v in model.items() if owner.lower() in n][0])
        except Exception as e:
            return False, "model incomplete %r" % e
        nat = eng.native("name_table", [x[0] + "::" + x[1] for x in NAME_RULES].index(owner + "::" + method), k)
        on, rn = holder["on"], holder["rn"]
        want = rn.index(rule[on[k]])
        return (nat != str(want)), "%s %s: %s gives index %s, expected %d (%s)" % (owner, on[k], method, nat, want, rule[on[k]])

    r = run_kernel(eng, "%s/B/%s-%s" % (clause, owner.lower(), method.replace("get_", "")), clause, "all %d elements" % len(rule), build, None, replay)
    return _finish(r, holder["ctx"]) if "ctx" in holder else r


NAME_RULES = [
    # the nine fields of heaven sit in the nine palaces (Lüshi Chunqiu, 有始览)
    ("Land", "get_direction", "Direction", {"玄天": "北", "朱天": "西南", "苍天": "东", "阳天": "东南", "钧天": "中", "幽天": "西北", "颢天": "西", "变天": "东北", "炎天": "南"}),
    # four palaces and their divine beasts
    ("Zone", "get_beast", "Beast", {"东": "青龙", "北": "玄武", "西": "白虎", "南": "朱雀"}),
    # nine 20-year periods, three per 60-year epoch (upper / middle / lower)
    ("Twenty", "get_sixty", "Sixty", {"一运": "上元", "二运": "上元", "三运": "上元", "四运": "中元", "五运": "中元", "六运": "中元", "七运": "下元", "八运": "下元", "九运": "下元"}),
]
