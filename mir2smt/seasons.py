"""Engine B kernels for the term-anchored day series (C15): Nines, pentads, Dog days, Plum rains.
Days are day numbers; term days are an abstract table constrained only by the stated spacing contracts."""
import os
from . import mir as M
from .mir import T, I, Rec, Ref, Variant, Opaque, Unsupported
from .kernels import run_kernel, REPO
from .pillars import _ctx, _finish
from .objmodel import Obj, smod


class DayV:
    def __init__(self, t):
        self.t = t          # SMT Int term: day number


class TermV:
    def __init__(self, ykey, idx, sym=None):
        self.ykey, self.idx, self.sym = ykey, idx, sym


class TJDV:
    def __init__(self, term):
        self.term = term


class LDayV:
    def __init__(self, t):
        self.t = t


def install(ctx, self_rec, O, year, termday, sym_term=None):
    """termday(ykey, idx) -> SMT Int term for the day number of that term"""
    model = ctx.model
    base = model.call

    def call(c, fr, callee, args, path):
        a = [model.deref(c, x) for x in args]
        if callee in ("SolarDay::get_year", "SolarTime::get_year") and a[0] is self_rec:
            return True, year
        if callee in ("SolarDay::get_term", "SolarTime::get_term") and a[0] is self_rec and sym_term is not None:
            return True, sym_term
        if callee == "SolarTerm::from_index" and isinstance(a[0], T) and isinstance(a[1], T) and a[1].c is not None:
            return True, TermV(a[0].s, a[1].c)
        if callee == "<SolarTerm as Tyme>::next" and isinstance(a[0], TermV) and isinstance(a[1], T) and a[1].c is not None and a[0].sym is None:
            return True, TermV(a[0].ykey, a[0].idx + a[1].c)
        if callee == "SolarTerm::get_index" and isinstance(a[0], TermV):
            return True, (a[0].sym["index"] if a[0].sym else I(a[0].idx % 24))
        if callee == "SolarTerm::get_julian_day" and isinstance(a[0], TermV):
            return True, TJDV(a[0])
        if callee in ("JulianDay::get_solar_day", "JulianDay::get_solar_time") and isinstance(a[0], TJDV):
            t = a[0].term
            return True, DayV(t.sym["day"] if t.sym else termday(t.ykey, t.idx))
        d0 = DayV(O) if (a and a[0] is self_rec) else (a[0] if a else None)
        if isinstance(d0, DayV):
            if callee == "<SolarDay as Tyme>::next" and isinstance(a[1], T):
                return True, DayV(T("(+ %s %s)" % (d0.t.s, a[1].s), "Int"))
            d1 = DayV(O) if (len(a) > 1 and a[1] is self_rec) else (a[1] if len(a) > 1 else None)
            if isinstance(d1, DayV):
                if callee in ("SolarDay::is_before", "SolarTime::is_before"):
                    return True, T("(< %s %s)" % (d0.t.s, d1.t.s), "Bool")
                if callee in ("SolarDay::is_after", "SolarTime::is_after"):
                    return True, T("(> %s %s)" % (d0.t.s, d1.t.s), "Bool")
                if callee == "SolarDay::subtract":
                    return True, T("(- %s %s)" % (d0.t.s, d1.t.s), "Int")
                if callee in ("<SolarDay as PartialEq>::eq", "SolarDay::eq"):
                    return True, T("(= %s %s)" % (d0.t.s, d1.t.s), "Bool")
            if callee == "SolarDay::get_lunar_day":
                return True, LDayV(d0.t)
        if callee == "LunarDay::get_sixty_cycle" and a and isinstance(a[0], LDayV):
            return True, Obj("SixtyCycle", T("(mod (+ %s 49) 60)" % a[0].t.s, "Int"))      # 07.c
        if callee in ("<HeavenStem as Into<LoopTyme>>::into", "<EarthBranch as Into<LoopTyme>>::into") and isinstance(a[0], Obj):
            o = Obj("LoopTyme", a[0].idx)
            o.size = 10 if "HeavenStem" in callee else 12
            return True, o
        if callee == "LoopTyme::steps_to" and isinstance(a[0], Obj) and a[0].kind == "LoopTyme" and isinstance(a[1], T):
            return True, smod(T("(- %s %s)" % (a[1].s, a[0].idx.s), "Int"), a[0].size)     # index_of (11.a)
        return base(c, fr, callee, args, path)
    model.call = call


def _result(p, ctor):
    """-> (is_some, [cycle object, day index]) for Option results; for plain results is_some = True"""
    r = p.ret
    if isinstance(r, Variant):
        if r.name == "None":
            return False, None
        r = r.value
    c = [c for c in p.calls if c[0] == ctor and c[2] is r]
    if not c:
        raise Unsupported("result is not built by " + ctor)
    return True, c[0][1]


def _scan(kind, what):
    def replay(eng, model):
        nat = eng.native("season_scan", kind)
        if nat in ("NONE", "PANIC", "UNKNOWN", ""):
            return nat == "PANIC", "native scan: " + (nat or "no output")
        return True, "%s violated on a real day: %s" % (what, nat)
    return replay


def _setup(eng, method):
    fn = M.find_fn(eng.fns, method, "&SolarDay")
    ctx = _ctx(eng, {})
    rec = Rec(ctx, "self", "SolarDay")
    O = ctx.fresh_value("day_number", "isize")
    year = ctx.fresh_value("year", "isize")
    YS = ctx.fresh_value("jan_1", "isize")
    ylen = ctx.fresh_value("year_length", "isize")
    pre = ["(<= 2 %s 9998)" % year.s, "(<= 1721424 %s 5373000)" % YS.s, "(or (= %s 355) (= %s 365) (= %s 366))" % (ylen.s, ylen.s, ylen.s),
           "(<= %s %s (+ %s %s (- 1)))" % (YS.s, O.s, YS.s, ylen.s)]
    return fn, ctx, rec, O, year, YS, ylen, pre


def k_nine(eng):
    holder = {}

    def build(eng):
        fn, ctx, rec, O, year, YS, ylen, pre = _setup(eng, "get_nine_day")
        holder.update(ctx=ctx)
        Wn = ctx.fresh_value("winter_solstice_of_this_december", "isize")
        Wc = ctx.fresh_value("winter_solstice_of_last_december", "isize")

        def termday(ykey, idx):
            if idx == 0 and ykey == "(+ %s 1)" % year.s:
                return Wn
            if idx == 0 and ykey == year.s:
                return Wc
            raise Unsupported("unexpected term (%s, %d)" % (ykey, idx))
        install(ctx, rec, O, year, termday)
        paths = ctx.run(fn, [("refrec", rec)])
        pre += ["(<= (- %s 16) %s (- %s 1))" % (YS.s, Wc.s, YS.s), "(<= (+ %s 330) %s (+ %s %s (- 1)))" % (YS.s, Wn.s, YS.s, ylen.s), "(<= 355 (- %s %s) 366)" % (Wn.s, Wc.s)]
        gov = "(ite (>= %s %s) %s %s)" % (O.s, Wn.s, Wn.s, Wc.s)
        k = "(- %s %s)" % (O.s, gov)

        def shape(p):
            try:
                _result(p, "NineDay::new")
            except Unsupported as e:
                return str(e)
            return None

        def posts(p):
            some, a = _result(p, "NineDay::new")
            inside = "(and (<= 0 %s) (< %s 81))" % (k, k)
            if not some:
                return [("none-only-outside", "(not %s)" % inside)]
            return [("some-only-inside", inside), ("nine", "(= %s (div %s 9))" % (a[0].idx.s, k)), ("day", "(= %s (mod %s 9))" % (a[1].s, k))]
        return ctx, paths, pre, posts, shape

    r = run_kernel(eng, "15.a/B/nines", "15.a", "every date of every year; solstice days any table with last December's 1..16 days before Jan 1, this December's inside the year, 355..366 days apart",
                   build, None, _scan(0, "the Nines rule"))
    return _finish(r, holder["ctx"]) if "ctx" in holder else r


def k_pentad(eng):
    holder = {}

    def build(eng):
        fn, ctx, rec, O, year, YS, ylen, pre = _setup(eng, "get_phenology_day")
        holder.update(ctx=ctx)
        ti = ctx.fresh_value("term_index", "usize")
        Dt = ctx.fresh_value("term_day", "isize")
        sym = TermV("sym", 0, sym={"index": ti, "day": Dt})
        install(ctx, rec, O, year, lambda y, i: (_ for _ in ()).throw(Unsupported("unexpected term")), sym_term=sym)
        paths = ctx.run(fn, [("refrec", rec)])
        di = "(- %s %s)" % (O.s, Dt.s)
        pre += ["(<= 0 %s 23)" % ti.s, "(<= 0 %s 16)" % di]      # C06: the day's term began 0..16 days ago
        third = "(ite (< (div %s 5) 2) (div %s 5) 2)" % (di, di)

        def shape(p):
            try:
                _result(p, "PhenologyDay::new")
            except Unsupported as e:
                return str(e)
            return None

        def posts(p):
            _, a = _result(p, "PhenologyDay::new")
            return [("pentad", "(= %s (+ (* 3 %s) %s))" % (a[0].idx.s, ti.s, third)), ("day", "(= %s (- %s (* 5 %s)))" % (a[1].s, di, third))]
        return ctx, paths, pre, posts, shape

    r = run_kernel(eng, "15.b/B/pentads", "15.b", "every term index 0..23, every day 0..16 of a term", build, None, _scan(1, "the pentad rule"))
    return _finish(r, holder["ctx"]) if "ctx" in holder else r


def k_dog(eng):
    holder = {}

    def build(eng):
        fn, ctx, rec, O, year, YS, ylen, pre = _setup(eng, "get_dog_day")
        holder.update(ctx=ctx)
        S = ctx.fresh_value("summer_solstice_day", "isize")
        L = ctx.fresh_value("start_of_autumn_day", "isize")

        def termday(ykey, idx):
            if ykey == year.s and idx == 12:
                return S
            if ykey == year.s and idx == 15:
                return L
            raise Unsupported("unexpected term (%s, %d)" % (ykey, idx))
        install(ctx, rec, O, year, termday)
        paths = ctx.run(fn, [("refrec", rec)])
        pre += ["(<= (+ %s 150) %s (+ %s 200))" % (YS.s, S.s, YS.s), "(<= 42 (- %s %s) 48)" % (L.s, S.s)]
        stem = "(mod (mod (+ %s 49) 60) 10)" % S.s
        first = "(+ %s (mod (- 6 %s) 10) 20)" % (S.s, stem)      # third Geng day on or after the solstice day
        fifth = "(+ %s 20)" % first
        a = "(- %s %s)" % (O.s, first)
        long_mid = "(> %s %s)" % (L.s, fifth)                      # the fifth Geng day precedes the start-of-autumn day
        # expected (dog, day) or none
        exp_some = "(and (<= 0 {a}) (< {a} (ite {lm} 40 30)))".format(a=a, lm=long_mid)
        exp_dog = "(ite (< {a} 10) 0 (ite (< {a} 20) 1 (ite {lm} (ite (< {a} 30) 1 2) 2)))".format(a=a, lm=long_mid)
        exp_day = "(ite (< {a} 10) {a} (ite (< {a} 20) (- {a} 10) (ite {lm} (ite (< {a} 30) (- {a} 10) (- {a} 30)) (- {a} 20))))".format(a=a, lm=long_mid)

        def shape(p):
            try:
                _result(p, "DogDay::new")
            except Unsupported as e:
                return str(e)
            return None

        def posts(p):
            some, r = _result(p, "DogDay::new")
            if not some:
                return [("none-only-outside", "(not %s)" % exp_some)]
            return [("some-only-inside", exp_some), ("dog", "(= %s %s)" % (r[0].idx.s, exp_dog)), ("day", "(= %s %s)" % (r[1].s, exp_day))]
        return ctx, paths, pre, posts, shape

    r = run_kernel(eng, "15.c/B/dog-days", "15.c", "every date; summer-solstice day any day of the year's middle, start-of-autumn day 42..48 days later; day pillars by 07.c", build, None, _scan(2, "the Dog-days rule"))
    return _finish(r, holder["ctx"]) if "ctx" in holder else r


def k_plum(eng):
    holder = {}

    def build(eng):
        fn, ctx, rec, O, year, YS, ylen, pre = _setup(eng, "get_plum_rain_day")
        holder.update(ctx=ctx)
        G = ctx.fresh_value("grain_in_ear_day", "isize")
        H = ctx.fresh_value("slight_heat_day", "isize")

        def termday(ykey, idx):
            if ykey == year.s and idx == 11:
                return G
            if ykey == year.s and idx == 13:
                return H
            raise Unsupported("unexpected term (%s, %d)" % (ykey, idx))
        install(ctx, rec, O, year, termday)
        paths = ctx.run(fn, [("refrec", rec)])
        pre += ["(<= (+ %s 130) %s (+ %s 190))" % (YS.s, G.s, YS.s), "(<= 28 (- %s %s) 32)" % (H.s, G.s)]
        start = "(+ %s (mod (- 2 (mod (mod (+ %s 49) 60) 10)) 10))" % (G.s, G.s)     # first Bing day on or after Grain in Ear
        end = "(+ %s (mod (- 7 (mod (mod (+ %s 49) 60) 12)) 12))" % (H.s, H.s)       # first Wei day on or after Slight Heat
        inside = "(and (<= %s %s) (<= %s %s))" % (start, O.s, O.s, end)

        def shape(p):
            try:
                _result(p, "PlumRainDay::new")
            except Unsupported as e:
                return str(e)
            return None

        def posts(p):
            some, r = _result(p, "PlumRainDay::new")
            if not some:
                return [("none-only-outside", "(not %s)" % inside)]
            return [("some-only-inside", inside),
                    ("which", "(= %s (ite (= %s %s) 1 0))" % (r[0].idx.s, O.s, end)),
                    ("day", "(= %s (ite (= %s %s) 0 (- %s %s)))" % (r[1].s, O.s, end, O.s, start))]
        return ctx, paths, pre, posts, shape

    r = run_kernel(eng, "15.d/B/plum-rains", "15.d", "every date; Grain-in-Ear day any day around the year's middle, Slight-Heat day 28..32 days later; day pillars by 07.c", build, None, _scan(3, "the Plum-rains rule"))
    return _finish(r, holder["ctx"]) if "ctx" in holder else r
