"""Engine B kernels for the day -> solar term walk (C06) under an abstract term table."""
import os
from . import mir as M
from .mir import T, I, Rec, Ref, Unsupported
from .kernels import run_kernel, struct_fields, REPO
from .pillars import _ctx, _finish


class Term:
    def __init__(self, base, off):
        self.base, self.off = base, off      # term number = base + off (base an Int term, off a Python int)


class TJD:
    def __init__(self, t):
        self.t = t


class TDay:
    def __init__(self, t):
        self.t = t


def k_term_day(eng, aligned):
    """SolarDay::get_term_day: the latest term whose day is on or before the date, day index = days since that day.
    Term days are an abstract increasing table D(k), consecutive days 14..16 apart (C06's data clause, assumed).
    aligned=True adds the contract under which the backward-only walk is meant to work: the month's second nominal term
    (index 2*month) falls inside the month and the term after it does not.  aligned=False drops it."""
    holder = {}

    def build(eng):
        fn = M.find_fn(eng.fns, "get_term_day", "&SolarDay")
        ctx = _ctx(eng, {})
        ctx.max_unroll = 5
        rec = Rec(ctx, "self", "SolarDay")
        y = ctx.fresh_value("year", "isize")
        m = ctx.fresh_value("month", "usize")
        O = ctx.fresh_value("day_number", "isize")          # of the date itself
        F = ctx.fresh_value("first_of_month", "isize")      # day number of the 1st of its month
        dim = ctx.fresh_value("month_length", "isize")
        D = {}                                               # offset -> day number of term (k0 + offset)
        holder.update(ctx=ctx, D=D)

        def dterm(off):
            if off not in D:
                D[off] = ctx.fresh_value("term_day_%s%d" % ("p" if off >= 0 else "m", abs(off)), "isize")
            return D[off]
        model = ctx.model
        base = model.call
        # components of the date and of the term days, for bodies that compute with day-of-month numbers instead of day numbers:
        # the date is day (O - F + 1) of month m (length dim); a term day on or after F lies in the same month, an earlier one in the
        # previous month (length prevlen; the walk never goes further back than that under the spacing contract)
        prevlen = ctx.fresh_value("previous_month_length", "isize")
        sfields = struct_fields(os.path.join(REPO, "src/tyme/solar.rs"), "SolarDay")
        dom = T("(+ (- %s %s) 1)" % (O.s, F.s), "Int")
        rec.fields[sfields.index("day")] = dom
        mrec = Rec(ctx, "self.month", "SolarMonth")
        rec.fields[sfields.index("month")] = mrec
        same = lambda off: "(>= %s %s)" % (dterm(off).s, F.s)

        def call(c, fr, callee, args, path):
            a = [model.deref(c, x) for x in args]
            if callee == "SolarDay::get_year" and a[0] is rec:
                return True, y
            if callee == "SolarDay::get_month" and a[0] is rec:
                return True, m
            if callee == "SolarDay::get_day" and a[0] is rec:
                return True, dom
            if callee == "SolarDay::get_solar_month" and a[0] is rec:
                return True, mrec
            if callee == "SolarMonth::get_day_count" and a[0] is mrec:
                return True, dim
            if a and isinstance(a[0], TDay) and callee in ("SolarDay::get_day", "SolarDay::get_month", "SolarDay::get_year"):
                off = a[0].t.off
                d = dterm(off).s
                if callee == "SolarDay::get_day":
                    return True, T("(ite %s (+ (- %s %s) 1) (+ (- %s (- %s %s)) 1))" % (same(off), d, F.s, d, F.s, prevlen.s), "Int")
                if callee == "SolarDay::get_month":
                    return True, T("(ite %s %s (ite (= %s 1) 12 (- %s 1)))" % (same(off), m.s, m.s, m.s), "Int")
                return True, T("(ite (or %s (> %s 1)) %s (- %s 1))" % (same(off), m.s, y.s, y.s), "Int")
            if callee == "SolarTerm::from_index" and isinstance(a[0], T) and isinstance(a[1], T):
                # 11.c: from_index(y, i) denotes term number 24 y + i
                return True, Term(T("(+ (* 24 %s) %s)" % (a[0].s, a[1].s), "Int"), 0)
            if callee == "<SolarTerm as Tyme>::next" and isinstance(a[0], Term) and isinstance(a[1], T) and a[1].c is not None:
                return True, Term(a[0].base, a[0].off + a[1].c)
            if callee in ("<SolarTerm as Clone>::clone", "SolarTerm::clone") and isinstance(a[0], Term):
                return True, a[0]
            if callee == "SolarTerm::get_julian_day" and isinstance(a[0], Term):
                return True, TJD(a[0])
            if callee == "JulianDay::get_solar_day" and isinstance(a[0], TJD):
                return True, TDay(a[0].t)
            if callee == "SolarDay::is_before" and a[0] is rec and isinstance(a[1], TDay):
                return True, T("(< %s %s)" % (O.s, dterm(a[1].t.off).s), "Bool")     # 01.f: before = chronological
            if callee == "SolarDay::subtract" and a[0] is rec and isinstance(a[1], TDay):
                return True, T("(- %s %s)" % (O.s, dterm(a[1].t.off).s), "Int")      # 01.f2
            return base(c, fr, callee, args, path)
        model.call = call
        paths = ctx.run(fn, [("refrec", rec)])
        k0 = "(+ (* 24 %s) (* 2 %s))" % (y.s, m.s)
        pre = ["(<= 1 %s 9999)" % y.s, "(<= 1 %s 12)" % m.s, "(<= 21 %s 31)" % dim.s, "(<= 28 %s 31)" % prevlen.s, "(<= 1721424 %s 5373484)" % F.s,
               "(<= %s %s (+ %s %s (- 1)))" % (F.s, O.s, F.s, dim.s)]
        for off in range(-6, 3):
            dterm(off)
        for off in range(-5, 3):
            pre.append("(<= 14 (- %s %s) 16)" % (D[off].s, D[off - 1].s))
        if aligned:
            pre += ["(<= %s %s (+ %s %s (- 1)))" % (F.s, D[0].s, F.s, dim.s), "(> %s (+ %s %s (- 1)))" % (D[1].s, F.s, dim.s)]
        else:
            # only: the month's second nominal term is somewhere around the month (within 20 days of it)
            pre += ["(<= (- %s 20) %s (+ %s %s 19))" % (F.s, D[0].s, F.s, dim.s)]

        def shape(p):
            if getattr(p, "cut", False):
                return None
            if not p.calls or p.calls[-1][0] != "SolarTermDay::new":
                return "result is not built by SolarTermDay::new"
            t = model.deref(ctx, p.calls[-1][1][0])
            if not isinstance(t, Term):
                return "the reported term is not one of the walked terms"
            fi = [c for c in p.calls if c[0] == "SolarTerm::from_index"]
            if len(fi) != 1:
                return "expected exactly one SolarTerm::from_index"
            return None

        def posts(p):
            if getattr(p, "cut", False):
                return []
            t = model.deref(ctx, p.calls[-1][1][0])
            idx = p.calls[-1][1][1]
            j = t.off
            if j - 1 not in D or j + 1 not in D:
                return [("walk-range", "false")]
            return [("start", "(= %s %s)" % (t.base.s, k0)),
                    ("latest-term", "(and (<= %s %s) (< %s %s))" % (D[j].s, O.s, O.s, D[j + 1].s)),
                    ("day-index", "(and (= %s (- %s %s)) (<= 0 %s 16))" % (idx.s, O.s, D[j].s, idx.s))]
        return ctx, paths, pre, posts, shape

    def replay(eng, model):
        nat = eng.native("term_day_scan", 1 if aligned else 0)
        if nat in ("NONE", "PANIC", "UNKNOWN", ""):
            return nat == "PANIC", "native scan: " + (nat or "no output")
        return True, "a later term has already begun on this date: " + nat

    kid = "06.b/B/term-day-aligned" if aligned else "06.d/B/term-day-any-alignment"
    bound = ("every date, every month length 21..31, term days any increasing table 14..16 days apart"
             + ("; contract: the month's second nominal term falls in the month and the next one after it" if aligned else "; NO alignment contract"))
    r = run_kernel(eng, kid, "06.b" if aligned else "06.d", bound, build, None, replay)
    if not aligned:
        r["role"] = "term-after-the-months-second-nominal-term-begins-inside-the-month"
    return _finish(r, holder["ctx"]) if "ctx" in holder else r


def k_term_instant(eng):
    """SolarTime::get_term: the latest term whose instant is at or before this instant — the same backward walk as get_term_day, on instants
    (seconds).  Term instants are an abstract increasing table, consecutive instants 14.6..15.8 days apart; alignment contract: the
    month's second nominal term (index 2*month) begins inside the month and the term after it does not."""
    holder = {}

    class TInst:
        def __init__(self, t):
            self.t = t

    def build(eng):
        fn = M.find_fn(eng.fns, "get_term", "&SolarTime")
        ctx = _ctx(eng, {})
        ctx.max_unroll = 5
        rec = Rec(ctx, "self", "SolarTime")
        y = ctx.fresh_value("year", "isize")
        m = ctx.fresh_value("month", "usize")
        O = ctx.fresh_value("instant", "isize")              # seconds on an arbitrary origin
        F = ctx.fresh_value("month_start_instant", "isize")
        dim = ctx.fresh_value("month_length_days", "isize")
        D = {}
        holder.update(ctx=ctx, D=D)

        def dterm(off):
            if off not in D:
                D[off] = ctx.fresh_value("term_instant_%s%d" % ("p" if off >= 0 else "m", abs(off)), "isize")
            return D[off]
        model = ctx.model
        base = model.call
        # components, for bodies that compare the civil day first and the clock afterwards: instant = 86400 * day + 3600 h + 60 m + s
        tfields = struct_fields(os.path.join(REPO, "src/tyme/solar.rs"), "SolarTime")
        comp = {}

        class DayO:
            def __init__(self, t):
                self.t = t

        def parts(key, inst):
            if key not in comp:
                d = ctx.fresh_value("day_of_%s" % key, "isize")
                hh, mm, ss = [ctx.fresh_value("%s_of_%s" % (n, key), "usize") for n in ("hour", "minute", "second")]
                comp[key] = (d, hh, mm, ss)
                defs.append("(and (<= 0 %s 23) (<= 0 %s 59) (<= 0 %s 59) (= %s (+ (* 86400 %s) (* 3600 %s) (* 60 %s) %s)))" % (hh.s, mm.s, ss.s, inst.s, d.s, hh.s, mm.s, ss.s))
            return comp[key]
        defs = []
        od, oh, om, osec = parts("self", O)
        rec.fields[tfields.index("day")] = DayO(od)
        rec.fields[tfields.index("hour")], rec.fields[tfields.index("minute")], rec.fields[tfields.index("second")] = oh, om, osec

        def call(c, fr, callee, args, path):
            a = [model.deref(c, x) for x in args]
            if callee == "SolarTime::get_year" and a[0] is rec:
                return True, y
            if callee == "SolarTime::get_month" and a[0] is rec:
                return True, m
            if a and (a[0] is rec or isinstance(a[0], TInst)) and callee in ("SolarTime::get_solar_day", "SolarTime::get_hour", "SolarTime::get_minute", "SolarTime::get_second"):
                p4 = (od, oh, om, osec) if a[0] is rec else parts("term_%s%d" % ("p" if a[0].t.off >= 0 else "m", abs(a[0].t.off)), dterm(a[0].t.off))
                k = ("SolarTime::get_solar_day", "SolarTime::get_hour", "SolarTime::get_minute", "SolarTime::get_second").index(callee)
                return True, (DayO(p4[0]) if k == 0 else p4[k])
            if len(a) == 2 and isinstance(a[0], DayO) and isinstance(a[1], DayO):
                r = {"SolarDay::is_before": "(< %s %s)", "SolarDay::is_after": "(> %s %s)", "<SolarDay as PartialEq>::eq": "(= %s %s)", "<SolarDay as PartialEq>::ne": "(not (= %s %s))",
                     "SolarDay::subtract": None}.get(callee, 0)
                if r:
                    return True, T(r % (a[0].t.s, a[1].t.s), "Bool")
                if r is None:
                    return True, T("(- %s %s)" % (a[0].t.s, a[1].t.s), "Int")
            if callee == "SolarTerm::from_index" and isinstance(a[0], T) and isinstance(a[1], T):
                return True, Term(T("(+ (* 24 %s) %s)" % (a[0].s, a[1].s), "Int"), 0)        # 11.c
            if callee == "<SolarTerm as Tyme>::next" and isinstance(a[0], Term) and isinstance(a[1], T) and a[1].c is not None:
                return True, Term(a[0].base, a[0].off + a[1].c)
            if callee in ("<SolarTerm as Clone>::clone", "SolarTerm::clone") and isinstance(a[0], Term):
                return True, a[0]
            if callee == "SolarTerm::get_julian_day" and isinstance(a[0], Term):
                return True, TJD(a[0])
            if callee == "JulianDay::get_solar_time" and isinstance(a[0], TJD):
                return True, TInst(a[0].t)
            if callee == "SolarTime::is_before" and a[0] is rec and isinstance(a[1], TInst):
                return True, T("(< %s %s)" % (O.s, dterm(a[1].t.off).s), "Bool")     # 12.c: before = chronological
            if callee == "SolarTime::is_after" and a[0] is rec and isinstance(a[1], TInst):
                return True, T("(> %s %s)" % (O.s, dterm(a[1].t.off).s), "Bool")
            return base(c, fr, callee, args, path)
        model.call = call
        paths = ctx.run(fn, [("refrec", rec)])
        k0 = "(+ (* 24 %s) (* 2 %s))" % (y.s, m.s)
        end = "(+ %s (* 86400 %s))" % (F.s, dim.s)
        pre = ["(<= 1 %s 9999)" % y.s, "(<= 1 %s 12)" % m.s, "(<= 21 %s 31)" % dim.s, "(<= 0 %s 400000000000)" % F.s, "(<= %s %s)" % (F.s, O.s), "(< %s %s)" % (O.s, end)]
        for off in range(-6, 3):
            dterm(off)
        for off in range(-5, 3):
            pre.append("(<= 1261440 (- %s %s) 1365120)" % (D[off].s, D[off - 1].s))          # 14.6 .. 15.8 days in seconds
        pre += ["(<= %s %s)" % (F.s, D[0].s), "(< %s %s)" % (D[0].s, end), "(>= %s %s)" % (D[1].s, end)]
        pre += defs      # component definitions created while the body ran

        def shape(p):
            if getattr(p, "cut", False):
                return None
            t = p.ret
            if not isinstance(t, Term):
                return "the reported term is not one of the walked terms"
            return None if len([c for c in p.calls if c[0] == "SolarTerm::from_index"]) == 1 else "expected exactly one SolarTerm::from_index"

        def posts(p):
            if getattr(p, "cut", False):
                return []
            j = p.ret.off
            if j - 1 not in D or j + 1 not in D:
                return [("walk-range", "false")]
            return [("start", "(= %s %s)" % (p.ret.base.s, k0)), ("latest-term", "(and (<= %s %s) (< %s %s))" % (D[j].s, O.s, O.s, D[j + 1].s))]
        return ctx, paths, pre, posts, shape

    def replay(eng, model):
        nat = eng.native("term_instant_scan")
        if nat in ("NONE", "PANIC", "UNKNOWN", ""):
            return nat == "PANIC", "native scan: " + (nat or "no output")
        return True, "the reported term is not the latest one begun at or before the instant: " + nat

    r = run_kernel(eng, "06.c/B/term-of-instant-aligned", "06.c", "every instant of every month (21..31 days), term instants any increasing table 14.6..15.8 days apart; contract: the month's second "
                   "nominal term begins inside the month and the next one after it; walk loop unrolled 5 times with the bound proved", build, None, replay)
    return _finish(r, holder["ctx"]) if "ctx" in holder else r
