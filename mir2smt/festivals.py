"""Engine B kernels for the stepping clause of C20: a festival stepped by n is the festival n places further along the festival list,
carrying into later or earlier years.  Only the index arithmetic is decided; the lookup by (year, index) itself runs a regex over a
packed string and is outside this technique."""
import os, re
from . import mir as M
from .mir import T, I, Rec, Unsupported
from .kernels import run_kernel, REPO
from .pillars import _ctx, _finish
from .objmodel import smod


def list_size(which):
    s = open(os.path.join(REPO, "src/tyme/festival.rs"), encoding="utf-8").read()
    m = re.search(r"pub static %s_FESTIVAL_NAMES: \[&str; (\d+)\] = \[(.*?)\];" % which.upper(), s, re.S)
    if not m:
        raise Unsupported("%s festival name list not found in the source" % which)
    names = re.findall(r'"([^"]*)"', m.group(2))
    if len(names) != int(m.group(1)):
        raise Unsupported("festival name list: declared %s, %d literals" % (m.group(1), len(names)))
    return len(names)


def k_festival_next(eng, which):
    owner = {"solar": "SolarFestival", "lunar": "LunarFestival"}[which]
    holder = {}

    def build(eng):
        size = list_size(which)
        fn = M.find_fn(eng.fns, "next", "&" + owner, 2)
        ctx = _ctx(eng, {})
        holder.update(ctx=ctx, size=size)
        rec = Rec(ctx, "self", owner)
        idx = ctx.fresh_value("index", "usize")
        year = ctx.fresh_value("year", "isize")
        n = ctx.fresh_value("n", "isize")
        model = ctx.model
        base = model.call
        day = Rec(ctx, "day")

        def call(c, fr, callee, args, path):
            a = [model.deref(c, x) for x in args]
            if callee == owner + "::get_index" and a[0] is rec:
                return True, idx
            if callee == owner + "::get_day" and a[0] is rec:
                return True, day
            if callee == ("SolarDay::get_year" if which == "solar" else "LunarDay::get_year") and not (a and isinstance(a[0], Rec) and a[0].name == "civil_day_of_the_lunar_day"):
                return True, year      # the festival's own day (field or getter): the year the festival was built for
            if which == "lunar" and callee == "LunarDay::get_solar_day":
                return True, Rec(c, "civil_day_of_the_lunar_day", "SolarDay")
            if which == "lunar" and callee == "SolarDay::get_year" and a and isinstance(a[0], Rec) and a[0].name == "civil_day_of_the_lunar_day":
                gy = c.fresh_value("civil_year_of_the_festival_day", "isize")      # the lunar year or the one after it (late-year festivals)
                path.pc.append(T("(<= %s %s (+ %s 1))" % (year.s, gy.s, year.s), "Bool"))
                return True, gy
            if callee == "AbstractCulture::index_of" and len(a) == 3 and isinstance(a[1], T) and isinstance(a[2], T) and a[2].c:
                return True, smod(a[1], a[2].c)       # 11.a
            return base(c, fr, callee, args, path)
        model.call = call
        paths = ctx.run(fn, [("refrec", rec), n])
        tot = "(+ (* %d %s) %s %s)" % (size, year.s, idx.s, n.s)
        pre = ["(<= 1 %s 9999)" % year.s, "(<= 0 %s %d)" % (idx.s, size - 1), "(<= (- 1000000) %s 1000000)" % n.s, "(<= %d %s)" % (size, tot)]

        def refused(p):
            """the step answers None (or anything else) WITHOUT asking from_index for the target"""
            cl = [c for c in p.calls if c[0] == owner + "::from_index"]
            return len(cl) == 0 and isinstance(p.ret, M.Variant) and p.ret.name == "None"

        def shape(p):
            if refused(p):
                return None
            cl = [c for c in p.calls if c[0] == owner + "::from_index"]
            if len(cl) != 1 or p.ret is not cl[0][2]:
                return "result is not what %s::from_index returns" % owner
            return None if all(isinstance(x, T) for x in cl[0][1]) else "from_index is not given numbers"

        def posts(p):
            if refused(p):
                # inside the stated range (target year 1..9999) every step must be looked up
                return [("target-in-range-is-looked-up", "(not (<= %d %s %d))" % (size, tot, size * 9999 + size - 1))]
            y2, i2 = [c for c in p.calls if c[0] == owner + "::from_index"][0][1]
            return [("index-range", "(<= 0 %s %d)" % (i2.s, size - 1)), ("n-places-along-the-list", "(= (+ (* %d %s) %s) %s)" % (size, y2.s, i2.s, tot))]
        return ctx, paths, pre, posts, shape

    def replay(eng, model):
        nat = eng.native("festival_next_scan", 0 if which == "solar" else 1)
        if nat in ("NONE", "PANIC", "UNKNOWN", ""):
            return nat == "PANIC", "native scan: " + (nat or "no output")
        return True, "festival stepping: " + nat

    r = run_kernel(eng, "20.c/B/%s-festival-next" % which, "20.c", "every year 1..9999, every list index, |n| <= 10^6 with the target year >= 1", build, None, replay)
    if "size" in holder:
        r["list_size_from_source"] = holder["size"]
    return _finish(r, holder["ctx"]) if "ctx" in holder else r
