#!/bin/sh
# usage: tools/try_mutant.sh <patch.diff> <prop> [extra check args...]   -- applies the patch to /repo, runs the check, reverts
set -u
P="$1"; shift
PROP="$1"; shift
cd /verif
git -C /repo diff --quiet || { echo "/repo not clean"; exit 9; }
git -C /repo apply "$P" || { echo "patch does not apply"; exit 9; }
cp evidence/$PROP.json /tmp/evidence-$PROP.bak 2>/dev/null
./check $PROP "$@"
RC=$?
git -C /repo checkout -- .
cp /tmp/evidence-$PROP.bak evidence/$PROP.json 2>/dev/null
echo "EXIT=$RC"
exit $RC
