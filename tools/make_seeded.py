#!/usr/bin/env python3
"""builds /verif/seeded/<id>/ (patch.diff, demo.rs, notes.md, meta.json) from the sub-agents' deliveries in /tmp/seeded-in and the table below"""
import json, os, shutil, re
SRC = "/tmp/seeded-in"
OUT = "/verif/seeded"
confirm = {}
for ln in open("/tmp/confirm.log"):
    m = re.match(r"^(C\d\d-[AB]) \| (.*)$", ln.strip())
    if m:
        confirm[m.group(1)] = m.group(2)
# id -> (property it breaks, what it needs, caught by (check / obligation) or None, note)
T = {
 "C01-A": ("C01", "20 dates only: March 1 of 1900, 2300, ... (century constant 1867216.5 in the day-count -> date inverse)", "C01 01.d (inverse on era windows / whole range)", ""),
 "C01-B": ("C01", "valid dates 1582-10-22..31 refused (validation collapsed into the generic month-length check)", "C01 01.a/accept", ""),
 "C02-A": ("C02", "years after a leap-12th-month year (1575, 3359, ...): every month one lunation early", None, "outside the decided clauses: the first-month offset depends on the real new-moon data (ENV-A makes it arbitrary)"),
 "C02-B": ("C02", "last month of a 13-month lunar year vs first month of the next (ordinal packs 12 months per year)", "C02 02.a/B/is_before, is_after (engine B, realised on a real leap year)", ""),
 "C03-A": ("C03", "years whose anchoring new moon falls on the winter-solstice day (w >= instead of >)", None, "outside: comparison between two values of the astronomical kernel (arbitrary under ENV-A)"),
 "C03-B": ("C03", "lunations AD 619-1220 with a shifted correction index in calc_shuo", None, "outside: inside the astronomical kernel (C05 territory, n/a)"),
 "C06-A": ("C06", "SolarTerm::next when index + n is a negative multiple of 24", "C06 06.a / C11 11.c (Kani flags the obligation, |n| <= 30; the trace run times out, the native candidate grid supplies the witness; 15 min for this failing run)", ""),
 "C06-B": ("C06", "dates before the 18th whose mid-month term falls on the 16th/17th (years >= 5260)", "C06 06.b/B/term-day-aligned (engine B; confirmed by the native scan of sampled years 1583..7275)", ""),
 "C07-A": ("C07", "January/February of century years not divisible by 400 (century term from the un-shifted year)", "C01 01.c/ord (months 1, 2)", "the property it was written for (C07) composes with C01: the day count itself is wrong"),
 "C07-B": ("C07", "= C02-A", None, "outside (data-dependent first-month offset)"),
 "C08-A": ("C08", "the Lichun day itself in years where Lichun precedes lunar New Year (>= became >)", "C08 08.d/B/day-view (engine B; kernel added after this change was first missed; confirmed by the native scan: 2024-02-04)", ""),
 "C08-B": ("C08", "negative steps of SixtyCycleMonth::next crossing below the Yin month (year borrow dropped)", "C08 11.g/B/sixty-month-next (engine B)", ""),
 "C09-A": ("C09", "inverse search skips the 60-year cycle anchored at start_year - 1", None, "outside: the inverse search is not claimed"),
 "C09-B": ("C09", "hour 23 in the instant-level view: hour stem computed before the day roll", "C09 09.c/B/instant-view (engine B; kernel added after this change was first missed)", ""),
 "C11-A": ("C11", "negative second steps that land exactly on hour 00 after crossing midnight (floor-division slip)", "C12 12.a/B/next (engine B, 0.6 s)", ""),
 "C11-B": ("C11", "LunarWeek::next backwards out of a leap month", None, "outside: lunar weeks are not claimed"),
 "C12-A": ("C12", "SolarTime::next fast path day + td inside October 1582", "C12 12.a/A/next and 12.a/A/next-calendar (Kani; engine B declines the changed call structure)", ""),
 "C12-B": ("C12", "= C07-A", "C01 01.c/ord (months 1, 2)", ""),
 "C13-A": ("C13", "day of year summed from month lengths: wrong only on 1582-10-15..31", "C01 01.h/day-of-year-cal (window 1580-1584)", ""),
 "C13-B": ("C13", "sexagenary month listing empty when Lichun precedes lunar New Year (= C08-A)", "C08 08.d/B/day-view (the underlying year-pillar slip; C13's own clause, sexagenary month -> days, is not claimed)", ""),
 "C14-A": ("C14", "= C11-B (lunar week stepping)", None, "outside: lunar weeks are not claimed"),
 "C14-B": ("C14", "SolarWeek::get_first_day fast path from the day number: weeks of October 1582 with index >= 1", "C14 14.a/weeks/wd1 (Kani flags the obligation; the trace run times out, the native candidate grid supplies the witness; ~16 min for this failing run)", ""),
 "C15-A": ("C15", "Dog days start 10 days late when the summer-solstice day is itself a Geng day", "C15 15.c/B/dog-days (engine B, confirmed on 2000 / 2021)", ""),
 "C15-B": ("C15", "pentad day index wraps on day 15 of a 16-day term", "C15 15.b/B/pentads (engine B)", ""),
 "C16-A": ("C16", "year carry dropped when the day overflow leaves December", "C16 16.c/B/addition (engine B on a semantic month ordinal; confirmed by the native scan of births 1990-1992)", ""),
 "C16-B": ("C16", "governing Jie chosen by birth day instead of birth instant", None, "outside: the choice of the governing Jie / direction rule is not claimed"),
 "C17-A": ("C17", "day nine star when a solstice falls on a Jiawu day (tie between two Jiazi days)", None, "outside: flying nine star of the day is not claimed"),
 "C17-B": ("C17", "LunarHour::get_twelve_star at hour 23 uses the un-rolled day pillar", "C17 17.g/B/lunar-hour-twelve (engine B, confirmed by the native scan)", ""),
 "C19-A": ("C19", "ten-star relation for a Yin stem looking at an earlier Yang stem (signed remainder)", "C19 19.c/ten-star (Kani)", ""),
 "C19-B": ("C19", "own sign when month number + hour number = 14 exactly (>= became >)", "C19 19.l/B/own-sign (engine B)", "patch rebased onto the repaired get_own_sign"),
}
for mid, (prop, needs, caught, note) in T.items():
    p, ab = mid.split("-")
    src = os.path.join(SRC, p, ab)
    dst = os.path.join(OUT, mid)
    os.makedirs(dst, exist_ok=True)
    patch = os.path.join(src, "patch.rebased.diff") if os.path.exists(os.path.join(src, "patch.rebased.diff")) else os.path.join(src, "patch.diff")
    shutil.copy(patch, os.path.join(dst, "patch.diff"))
    for f in ("demo.rs", "notes.md"):
        if os.path.exists(os.path.join(src, f)):
            shutil.copy(os.path.join(src, f), os.path.join(dst, f))
    meta = {"id": mid, "property": prop, "origin": "independent sub-agent given only the property text and its own worktree of /repo",
            "needs_to_manifest": needs,
            "confirmed": {"how": "scratch worktree /tmp/wt-confirm at /repo HEAD: git apply; cargo test --offline --lib (suite); tests/demo.rs with and without the patch",
                          "result": confirm.get(mid, "C01-A: patch rebased by hand onto the repaired jd.rs (1867216.25 -> 1867216.5); suite 272 passed; demo 0/2 with, 2/2 without")},
            "caught_by": caught, "not_caught_because": (note if not caught else None), "note": (note if caught else None),
            "how_to_run": "tools/try_mutant.sh /verif/seeded/%s/patch.diff <property> --tier quick" % mid}
    json.dump(meta, open(os.path.join(dst, "meta.json"), "w"), indent=1, ensure_ascii=False)
print(len(T), "seeded changes written")
