#!/usr/bin/env python3
"""regenerates /verif/MANIFEST.json from the table below"""
import json
props = [json.loads(l) for l in open('/verif/properties.jsonl')]
BMC = "bounded model checking of the real code with Kani/CBMC (SAT)"
ENGB = "MIR-to-SMT translation of integer kernels decided by z3 and cvc5"
GEN = ("Bounded symbolic checking of the compiled crate: every obligation is decided by the solver for all values inside its stated bound, "
       "or yields a concrete counterexample that is replayed natively against the real code before it is reported. ")
CLAIMED = {
 "C01": dict(text=GEN + "For C01 the bound equals the library's whole domain (every date 0001..9999) in the thorough tier; the quick tier covers the forward map over the whole domain and the inverse on era windows.",
             note="Assumes: std::fmt::format stubbed to an empty string on error paths; integer reference calendar harness/src/refcal.rs as oracle (cross-checked by 01.r/01.h2); ghost day-count stand-in in 01.f2/01.h1 justified by 01.c+01.r; Kani/CBMC/CaDiCaL, dev-profile MIR semantics.",
             technique=BMC + ", counterexample replay"),
 "C12": dict(text=GEN + "Second stepping and subtraction are decided by engine B (integer SMT from the compiler's MIR, z3+cvc5, |n| <= 1e9, overflow asserts proved); acceptance, ordering and the Julian-date conversions by Kani, the fractional-date obligations split by hour of day on day windows.",
             note="Assumes: SolarDay::next / get_julian_day stand-ins discharged by C01; struct invariant hour<24, minute<60, second<60 (12.0 proves the constructor enforces it); 12.d/12.e outside the stated day windows and hour slices of the tier are not covered; 0.501 s tolerance.",
             technique=ENGB + " + " + BMC),
 "C11": dict(text=GEN + "Partial: modular helper and year*size+index carry pattern by engine B; all 42 LoopTyme-backed cycle types by index (wiring per type); solar term stepping; lunar month stepping on the month line of any leap table; lunar/sexagenary/civil years; lunar hour stepping (2n hours) and sexagenary day / instant view stepping (engine B). Stepping of weeks, lunar days, sexagenary months and fortunes is decided under C14, C02, C08 and C16. Not covered: name<->index inverse.",
             note="Assumes: index_of replaced by its engine-B-proved specification in the per-type harnesses; calc_shuo/calc_qi arbitrary (ENV-A); leap table symbolic over a 5-7 year window (ENV-L); LunarMonth::from_ym without the memo cache.",
             technique=ENGB + " + " + BMC),
 "C13": dict(text=GEN + "Partial: civil year/half-year/season/month nesting and month -> days for every year and month (incl. October 1582); lunar year -> months (engine B on a month line in both tiers; Kani over any leap table of a 3-year window in the thorough tier); lunar month -> its days, lunar day -> 13 slots, sexagenary day -> 12 double-hours, sexagenary month -> days from Jie day to the day before the next (engine B: the listing loops unrolled with the bound proved, the returned vector compared element by element).; sexagenary year -> 12 months.",
             note="Assumes: SolarDay::next from the 1st of a month replaced by the reference calendar (lemma 13.L; discharged by C01); ENV-A/ENV-L for the lunar part; for the engine-B lists: month pillar of a day turns at Jie days (C08 08.d), stepping a view moves its day/instant (C11 11.j).",
             technique=BMC + " + " + ENGB),
 "C14": dict(text=GEN + "Partial: civil weeks — acceptance, week count, first day, start weekday, coverage, seven consecutive days, week-of-date — for every month/date, every start weekday, one job per weekday of the 1st of the month. stepping a civil or lunar week by n (|n| <= 6 / 8) and the first day of a lunar week by engine B; the index of a civil week in its year counted from the week containing January 1 (engine B, search loop unrolled with the bound proved); week -> seven days, month -> weeks, week count and constructor acceptance for civil and lunar (engine B). Not covered: steps beyond the stated bounds.",
             note="Assumes: day counts relative to the month's 1st (sums of month lengths; discharged by C01) with one concrete representative day count per weekday; small-step SolarDay::next closed form (lemma 14.L); index_of as 32-bit arithmetic (engine B).",
             technique=BMC + " + " + ENGB),
 "C19": dict(text=GEN + "Stem / branch / pillar / star attribute tables are decided over their whole finite domains (symbolic index, Kani) against first-principles encodings written from the classical rules; the eight-character derived signs over all pillar combinations, the hidden-stem list and the name-stated tables Direction -> Element, Land -> Direction, Zone -> Beast, Twenty -> Sixty by engine B. Not covered: name-string lookups, Peng Zu texts, 28-mansion luck and foetus tables.",
             note="Assumes: index_of as 32-bit arithmetic (engine B); the oracle tables in harness/src/c19.rs; engine-B object-model axioms (A-index, A-pillar, A-name, A-format) each discharged by another obligation or stated as trusted.",
             technique=BMC + " + " + ENGB),
 "C07": dict(text=GEN + "Partial: weekday = (floor(JD+0.5)+1) mod 7 for every Julian date (Kani); day pillar = (day number + 49) mod 60 on the lunar-date route for every month start and day (engine B over the real index arithmetic, names via an axiomatised object model). the sexagenary-day view stores the pillar of the lunar day of that very date, its getter returns it and the civil date's view is that view, so the three routes agree (engine B). Not covered: that the solar->lunar walk lands on the right lunar day over the real month table (C02 decides it under an abstract tiling table).",
             note="Assumes: LunarMonth::get_first_julian_day arbitrary (ENV-A); object-model axioms A-index, A-name (lemma T60 + trusted first-match search), A-format, A-jd; +1 per civil day composes with C01 01.c on paper.",
             technique=ENGB + " + " + BMC),
 "C08": dict(text=GEN + "Partial: year pillar index (y-4) mod 60; month pillars obey the Five-Tigers rule on every route that builds them by index (lunar month, first month of a sexagenary year, sexagenary month stepping incl. the year carry), all years, engine B. the day view switches the year pillar on the Lichun day and the month pillar on each Jie day (given the date's term). The instant-level view's switching at the exact term instants is decided under C09 (09.c).",
             note="Assumes: object-model axioms A-index, A-pillar, A-name, A-format; struct invariants (index in year 0..12).",
             technique=ENGB),
 "C09": dict(text=GEN + "Partial: hour branch, Five-Rats stem and the 23:00 roll-over on the lunar-hour route for all 60 day pillars x 24 hours (engine B); the instant-level view reports the next day's pillar from 23:00 with the matching hour pillar and switches year/month pillars at the term instants (engine B); the eight characters are exactly the view's four pillars for both shipped providers, and EightChar's getters return them (engine B); the inverse search visits every candidate year of the range and tries an instant in the hour pillar's double hour on every candidate day of the range (engine B, cycle loop unrolled; two genuine defects found here and fixed); refusal of invalid clock fields (Kani). Not covered: double hours containing a Jie instant, ranges wider than 130 years.",
             note="Assumes: the day pillar is an arbitrary pillar here (its value is C07 07.c); object-model axioms A-index, A-pillar, A-name, A-format.",
             technique=ENGB + " + " + BMC),
 "C17": dict(text=GEN + "Partial: six-day star incl. leap months, moon phase, minor Ren, month nine star, 28 mansions (+1 per day, luminary = weekday), day officer, Yellow/Black-path spirits for days and hours — engine B over the real index arithmetic for all inputs. flying nine star of the year (quick: five 360-year windows, thorough: every year -1..9999), of the hour, and of the day (turning at the Jiazi days nearest the solstices; for the dates before a civil year's first turning day the check reports a known finding: the code counts back from that day and the star jumps on January 1 after a 240-day run).",
             note="Assumes: object-model axioms A-index, A-pillar; weekday and day pillar as functions of the day number from C07.",
             technique=ENGB),
 "C16": dict(text=GEN + "Partial: the seconds -> (years, months, days, hours, minutes) conversions of the Default, China95 and LunarSect2 strategies for every difference up to 32 days and of LunarSect1 (days and double hours), and the calendar addition of AbstractChildLimitProvider::next (clock carries, day overflow through arbitrary month lengths with the loop bound proved, start month, month steps); the forward/backward rule and which Jie governs; decade and yearly fortunes (indices, ages, years, month/hour pillar stepped by +-1 in the direction of luck, next(n)) — engine B on the compiler's MIR with overflow asserts proved. Not covered: months with missing days, which term an instant belongs to.",
             note="Assumes: the difference to the governing Jie is arbitrary within +-32 days (ENV-J); month lengths arbitrary 21..31 and months as ordinals 12y+m-1 (C01/C11); SolarTime getters within their invariant ranges (C12 12.0).",
             technique=ENGB),
 "C02": dict(text=GEN + "Partial: lunar before/after = chronological order (year, index in year, day) including a month vs its leap twin, for any leap month; LunarDay::new accepts exactly day 1..day count; LunarMonth::new invariant — engine B, counterexamples realised on a real year with that leap month. the civil -> lunar walk and its inverse under an abstract tiling month table (round trips and consecutive-day mapping hold wherever the real table tiles). Not covered: that the real new-moon table tiles (it has known gaps in AD 9-25 and AD 240).",
             note="Assumes: month records satisfy the constructor's invariant (03.c, decided in the same run).",
             technique=ENGB),
 "C03": dict(text=GEN + "Partial (structural clauses): LunarMonth::new acceptance and index in year for any leap table and any astronomy (engine B); month stepping moves by exactly n on the month line of any leap table, leap month right after its twin (Kani, = 11.e); year listing (engine B on a month line; Kani over a symbolic leap window under C13 thorough) and year day count = sum over the listed months (engine B). Not covered: 29/30-day lengths, abutment, year lengths — data of ~123,700 evaluated lunations.",
             note="Assumes: ENV-A (astronomical kernel arbitrary, float comparisons arbitrary), ENV-L (leap table symbolic on a 5-7 year window), LunarMonth::from_ym without the memo.",
             technique=ENGB + " + " + BMC),
 "C06": dict(text=GEN + "Partial: term stepping = constructing n places later incl. year carry (Kani); day -> term lookup under an abstract term table: with the alignment contract the reported term is the latest one on or before the date and the day index is the days since its day, 0..16 (engine B, walk loop unrolled, bound proved), and the same for instants (SolarTime::get_term); without the contract the solver finds the known forward-walk defect, which is realised natively and printed as KNOWN-FINDING. Not covered: spacing/monotonicity of the real term instants, in which years the alignment contract holds.",
             note="Assumes: term days form an increasing table with consecutive days 14..16 apart; SolarTerm::from_index/next denote term numbers (11.c); SolarDay order/subtract per C01.",
             technique=ENGB + " + " + BMC),
 "C15": dict(text=GEN + "Partial: Nines, pentads, Dog days and Plum rains re-derived in the specification from abstract term days and the (day number + 49) mod 60 pillar, decided for every date and every admissible term table by engine B on the compiler's MIR; counterexamples are confirmed by a native scan of real years. Not covered: commanding stems (string slicing).",
             note="Assumes: spacing contracts of the term table (solstices 355..366 days apart, start of autumn 42..48 days after the summer solstice, Slight Heat 28..32 days after Grain in Ear); day pillar per C07; day arithmetic per C01.",
             technique=ENGB),
 "C20": dict(text=GEN + "Partial — ONLY the stepping clause: a civil or lunar festival stepped by n asks for the festival n places further along the festival list, carrying into later or earlier years (index arithmetic of SolarFestival::next / LunarFestival::next for every year, index and |n| <= 10^6, overflow and division asserts proved; list sizes read from the source) — engine B. Not covered: every lookup (from_index / from_ymd, all of LegalHoliday): they run a regex over a packed string, which this technique cannot encode; founding years, shared days, New Year's Eve, term-day festivals, the legal-holiday table.",
             note="Assumes: index_of is the mathematical remainder (C11 11.a); the festival's own index and year are arbitrary in range.",
             technique=ENGB),
}
NA = {
 "C04": "relates the decoded leap table to evaluated new-moon and solar-term series: HashMap decode + sin/cos float series cannot be encoded; with the year concrete nothing symbolic remains (DESIGN §6)",
 "C05": "transcendental floating point (about 3000 trigonometric coefficients, Newton inverses): CBMC over-approximates sin/cos as arbitrary values in [-1,1]; no decision procedure here (DESIGN §6)",
 "C10": "call histories, thread interleavings, poisoned Mutex<HashMap<String,_>>: outside Kani (no threads, no unwinding, SipHash via foreign call) (DESIGN §6)",
 "C18": "lookups run the regex crate and split 60 KB of packed strings addressed by symbolic indices; finite spaces would be decided by enumeration, which is outside this technique (DESIGN §6)",
}
import sys
extra = json.load(open('/verif/tools/claimed_extra.json')) if len(sys.argv) > 1 else {}
checks = []
for pid, c in CLAIMED.items():
    checks.append({"property_id": pid, "quick_cmd": "./check %s --tier quick" % pid, "thorough_cmd": "./check %s --tier thorough" % pid,
                   "evidence_file": "/verif/evidence/%s.json" % pid, "replay_cmd_template": "./check --replay {path}", "engine": "kani-harness",
                   "level_claimed": {"category": "model_checking", "text": c["text"], "design_ref": "DESIGN.md §5 " + pid},
                   "level_note": c["note"], "technique": c["technique"]})
na = []
for p in props:
    if p["id"] in CLAIMED:
        continue
    na.append({"property_id": p["id"], "reason": NA.get(p["id"], "not yet built in this revision (planned per DESIGN.md §7); no check is registered, nothing is claimed")})
m = {"version": 1, "setup_cmd": "./setup.sh",
     "hooks": {"guard": "tyme4rs_verif", "enable": "none needed: harnesses live in /verif/harness (path dependency on /repo); no source hooks are compiled in",
               "baseline_off_cmd": "cd /repo && cargo test --workspace --no-fail-fast --offline", "source_commits": [], "add_only": True},
     "engines": [{"name": "kani-harness", "path": "/verif/harness", "serves_properties": list(CLAIMED), "kind_free_text": "engine A: Kani 0.68 / CBMC 6.11 / CaDiCaL bounded model checking of the compiled crate; wrappers generated per run by verifkit/kani.py"},
                 {"name": "mir2smt", "path": "/verif/mir2smt", "serves_properties": ["C02", "C03", "C06", "C07", "C08", "C09", "C11", "C12", "C13", "C14", "C15", "C16", "C17", "C19", "C20"], "kind_free_text": "engine B: nightly rustc MIR of loop-free integer kernels translated to integer SMT-LIB, decided by z3 and cvc5 (both must agree), translator validated against the native functions on every run"}],
     "checks": checks, "not_applicable": na,
     "notes": "Every check rebuilds from /repo's working tree in a scratch directory under /tmp that it removes on exit. Genuine defects repaired by fix: commits are listed in known_findings.json (status fixed)."}
json.dump(m, open('/verif/MANIFEST.json', 'w'), indent=1)
print("claimed", list(CLAIMED), "n/a", [x["property_id"] for x in na])
