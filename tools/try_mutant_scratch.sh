#!/bin/sh
# development helper: usage tools/try_mutant_scratch.sh <ABSOLUTE patch.diff> <prop> [check args...]
# runs the check against a scratch worktree of /repo with the patch applied (VERIF_REPO), leaving /repo itself untouched;
# evidence is restored afterwards.  The registered way (tools/try_mutant.sh: apply to /repo, run, revert) gives the same verdicts.
set -u
P="$1"; shift
PROP="$1"; shift
WT=/tmp/verif-trial-wt-$$
git -C /repo worktree add "$WT" HEAD >/dev/null 2>&1 || { echo "cannot create worktree"; exit 9; }
cp /repo/Cargo.lock "$WT/" 2>/dev/null
git -C "$WT" apply "$P" || { echo "patch does not apply"; git -C /repo worktree remove --force "$WT"; exit 9; }
cd /verif
cp evidence/$PROP.json /tmp/evidence-$PROP.bak.$$ 2>/dev/null
VERIF_REPO="$WT" ./check $PROP "$@"
RC=$?
cp /tmp/evidence-$PROP.bak.$$ evidence/$PROP.json 2>/dev/null; rm -f /tmp/evidence-$PROP.bak.$$
git -C /repo worktree remove --force "$WT"
echo "EXIT=$RC"
exit $RC
