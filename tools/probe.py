#!/usr/bin/env python3
"""ad-hoc probe runner: tools/probe.py '<id>|<body>|<params,>|<stubs,>|<unwind>|<timeout>' ..."""
import sys
sys.path.insert(0, '/verif')
from verifkit import kani
from verifkit.kani import Job
jobs = []
for a in sys.argv[1:]:
    f = a.split("|")
    jobs.append(Job(f[0], f[1], [int(x) for x in f[2].split(",") if x], stubs=[x for x in f[3].split(",") if x], unwind=int(f[4]) if f[4] else None, timeout=int(f[5]), mem_gb=6))
scr = kani.Scratch("probe")
try:
    scr.prepare(jobs)
    print(kani.build_template(scr))
    for r in kani.run_jobs(scr, jobs, progress=lambda r: print(r.job.id, r.status, "wall", round(r.wall_s), "solver", round(r.solver_s), "symex", round(r.symex_s), r.variables, r.clauses, r.reason[:200], flush=True)):
        pass
finally:
    scr.cleanup()
