"""C06 — every day belongs to exactly one solar term (DESIGN §5 C06)."""
from verifkit.kani import Job
from props import c11

META = {
    "exhaustive_when_all_discharged": False,
    "decided": [
        "06.a stepping a term by n equals constructing the term n places later, crossing years in either direction; is_jie / is_qi = index parity (= 11.c, Kani)",
        "06.b under the alignment contract (the month's second nominal term falls inside the month, the next one after it): SolarDay::get_term_day reports the latest term whose day is on or before the date, with day index = days since that term's day, 0..16 — for every date, month length and term table (engine B, walk loop unrolled with the bound proved)",
        "06.c the same for instants: under the alignment contract SolarTime::get_term reports the latest term whose instant is at or before the instant — for every instant, month length and term-instant table 14.6..15.8 days apart (engine B, walk loop unrolled with the bound proved)",
        "06.d without the alignment contract the same obligation has a counterexample, realised natively (known finding: the lookup never walks forward)",
    ],
    "outside": ["that consecutive term instants are 14.6-15.8 days apart and strictly increasing (assumed as the table's contract: trigonometric data)",
                "in which years the alignment contract holds (per the property text: 1583-7275)"],
    "assumptions": [
        "term days are an abstract table D(k): any integers with consecutive values 14..16 apart; SolarTerm::from_index(y, i) denotes term 24y + i and next(n) moves by n (11.c)",
        "SolarDay::is_before = chronological order and subtract = day-count difference (C01 01.f)",
        "06.a: calc_qi arbitrary (ENV-A)",
    ],
}

def jobs(tier, seed):
    J = [j for j in c11.jobs(tier, seed) if j.id.startswith("11.c")]
    for j in J:
        j.clause = "06.a"
    return J

fallback_candidates = c11.fallback_candidates

def engine_b(tier, seed, scr):
    from props._b import engine
    from mir2smt import terms
    eng, err = engine(scr, "06.b/B/term-day-aligned", "06.b")
    if eng is None:
        return err
    return [terms.k_term_day(eng, True), terms.k_term_instant(eng), terms.k_term_day(eng, False)]
