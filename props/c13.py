"""C13 — containers list exactly their parts (DESIGN §5 C13)."""
from verifkit.kani import Job

META = {
    "exhaustive_when_all_discharged": False,
    "decided": [
        "13.a civil year -> 2 half-years, 4 seasons, 12 months, nested correctly, in order; month.get_season consistent (every year)",
        "13.b a civil month lists exactly the dates that exist in it, in order, as many as its day count (every month, incl. October 1582)",
        "13.c a lunar year lists exactly its 12 or 13 months in order with the leap month right after its twin, for any leap table (Kani, thorough tier); on engine B (quick tier too): the listing loop on a month line — exactly the months carrying the year's number, starting from month 1, in order, for a year of 12 and of 13 months",
        "13.d a lunar month lists exactly the days 1..day count of its own (year, month-with-leap), in order (engine B; listing loop unrolled, bound proved)",
        "13.e a lunar day lists 13 slots of itself: 00:00, then 01:00, 03:00 ... 23:00; 13.f a sexagenary day lists 12 double-hours, the k-th starting 7200 k seconds after 23:00 of the previous civil day",
        "13.g a sexagenary month lists the days from its Jie day to the day before the next Jie day, in order (engine B; loop unrolled 35 times, bound proved)",
        "13.h a sexagenary year lists its first month and the 11 months after it (stepping per 11.g)",
        "day-of-year and year length agree with the lists: C01 (01.h)",
    ],
    "outside": ["that the listed lunar days / hours are themselves accepted by their constructors (02.b, 09.b decide acceptance)"],
    "assumptions": [
        "13.b: <SolarDay as Tyme>::next replaced by the reference calendar (from the 1st of a month, n < month length steps land on the (n+1)-th existing date: lemma 13.L by induction; otherwise n successor steps), which 01.c/01.d/01.g prove equal to the real function",
        "13.c: ENV-A (calc_shuo/calc_qi arbitrary), ENV-L (leap table symbolic on a 3-year window), LunarMonth::from_ym = LunarMonth::new without the memo",
        "stub fmt_empty for std::fmt::format (error payloads)",
        "13.d-13.g (engine B): Vec::new/push and integer ranges (incl. step_by) are modelled as lists and counters; 13.f: stepping the instant view moves the instant (11.j); 13.g: the month pillar view of a day equals this month exactly from its Jie day to the day before the next one (08.d), Jie days 28..33 days apart, stepping the day view moves the day (11.j)",
    ],
}

def jobs(tier, seed):
    J = []
    T = tier == "thorough"
    J.append(Job("13.a/nesting", "c13::c13a_nesting", [], unwind=14, est=60, timeout=900, clause="13.a", bound="every year 1..9999"))
    J.append(Job("13.b/days", "c13::c13b_days", [1, 9999], stubs=["fmt_empty", "sd_next_in_month"], unwind=33, est=200, timeout=1500 if not T else 2400, mem_gb=6,
                 clause="13.b", bound="every month of years 1..9999"))
    J.append(Job("13.L/succ-in-month", "c13::c13l_succ_in_month", [], est=10, clause="13.b", bound="every (y, m, position)"))
    if T:
      J.append(Job("13.c/lunar-year", "c13::c13c_lunar_year", [2000], stubs=["fmt_empty", "shuo_any", "qi_any", "leap_model", "from_ym_new"], unwind=26, est=300,
                 timeout=1500 if not T else 2400, mem_gb=8, n_inputs=3, clause="13.c", bound="any leap table on a 3-year window"))
    return J

def engine_b(tier, seed, scr):
    from props._b import engine
    from mir2smt import lists, lunar
    eng, err = engine(scr, "13.d/B/lunar-month-days", "13.d")
    if eng is None:
        return err
    return [lunar.k_lunar_month_days(eng), lists.k_lunar_day_hours(eng), lists.k_sixty_day_hours(eng), lists.k_sixty_month_days(eng), lists.k_sixty_year_months(eng),
            lists.k_lunar_year_months(eng, 12), lists.k_lunar_year_months(eng, 13)]

def fallback_candidates(j):
    if j.body.endswith("c13b_days"):
        return [[y, m] for y in (1582, 2024, 1900, 1) for m in range(1, 13)]
    return []

def describe(j, vals):
    return {"inputs_as_i64": [v if v < (1 << 63) else v - (1 << 64) for v in vals]}
