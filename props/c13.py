"""C13 — containers list exactly their parts (DESIGN §5 C13)."""
from verifkit.kani import Job

META = {
    "exhaustive_when_all_discharged": False,
    "decided": [
        "13.a civil year -> 2 half-years, 4 seasons, 12 months, nested correctly, in order; month.get_season consistent (every year)",
        "13.b a civil month lists exactly the dates that exist in it, in order, as many as its day count (every month, incl. October 1582)",
        "13.c a lunar year lists exactly its 12 or 13 months in order with the leap month right after its twin, for any leap table",
        "day-of-year and year length agree with the lists: C01 (01.h)",
    ],
    "outside": ["lunar month -> its 29/30 days, lunar / sexagenary day -> hour slots, sexagenary month -> days (need an abstract lunar month table; not built)"],
    "assumptions": [
        "13.b: <SolarDay as Tyme>::next replaced by the reference calendar (from the 1st of a month, n < month length steps land on the (n+1)-th existing date: lemma 13.L by induction; otherwise n successor steps), which 01.c/01.d/01.g prove equal to the real function",
        "13.c: ENV-A (calc_shuo/calc_qi arbitrary), ENV-L (leap table symbolic on a 3-year window), LunarMonth::from_ym = LunarMonth::new without the memo",
        "stub fmt_empty for std::fmt::format (error payloads)",
    ],
}

def jobs(tier, seed):
    J = []
    T = tier == "thorough"
    J.append(Job("13.a/nesting", "c13::c13a_nesting", [], unwind=14, est=60, timeout=900, clause="13.a", bound="every year 1..9999"))
    J.append(Job("13.b/days", "c13::c13b_days", [1, 9999], stubs=["fmt_empty", "sd_next_in_month"], unwind=33, est=200, timeout=1500 if not T else 2400, mem_gb=6,
                 clause="13.b", bound="every month of years 1..9999"))
    J.append(Job("13.L/succ-in-month", "c13::c13l_succ_in_month", [], est=10, clause="13.b", bound="every (y, m, position)"))
    if T:
      J.append(Job("13.c/lunar-year", "c13::c13c_lunar_year", [2000], stubs=["fmt_empty", "shuo_any", "qi_any", "leap_model", "from_ym_new"], unwind=26, est=300,
                 timeout=1500 if not T else 2400, mem_gb=8, n_inputs=3, clause="13.c", bound="any leap table on a 3-year window"))
    return J

def fallback_candidates(j):
    if j.body.endswith("c13b_days"):
        return [[y, m] for y in (1582, 2024, 1900, 1) for m in range(1, 13)]
    return []

def describe(j, vals):
    return {"inputs_as_i64": [v if v < (1 << 63) else v - (1 << 64) for v in vals]}
