"""C07 — day pillar and weekday (DESIGN §5 C07)."""
from verifkit.kani import Job

META = {
    "exhaustive_when_all_discharged": False,
    "decided": [
        "07.a weekday index = (floor(JD + 0.5) + 1) mod 7 for every Julian date in range, fractions included (real index_of, multiplicative spec)",
        "07.b +1 weekday per civil day without a break at month ends, year ends or the 1582 gap: 07.a composed with 01.c (day count grows by exactly one per civil day) — paper composition",
        "07.d the three routes agree: the sexagenary-day view stores the pillar of the lunar day of that very civil day (08.d 'day' clause, re-run here), its getter returns the stored pillar, and the civil date's view is the view built from that very day — so all three are 07.c's pillar of the lunar day the walk (C02 02.c) lands on",
        "07.c the pillar of lunar day d of a month whose first day number is X is (X + d - 1 + 49) mod 60, for every X in range and every d (engine B over the real arithmetic of LunarDay::get_sixty_cycle; names via the object model)",
    ],
    "outside": ["that the solar->lunar walk lands on the right lunar day over the REAL month table (C02 decides the walk under an abstract tiling table)",
                "abutment of lunar months (C03's data clause), which the +1-per-day claim across lunar month boundaries rests on"],
    "assumptions": [
        "engine B object model: axioms A-index (11.d/11.a), A-name (lemma T60 + trusted first-match search of LoopTyme::new), A-format (core::fmt semantics), A-jd (01.g/next-exact); listed per kernel in the evidence",
        "07.c: LunarMonth::get_first_julian_day returns an arbitrary integral day count in range (ENV-A)",
        "stub fmt_empty for std::fmt::format in 07.a (error payloads)",
    ],
}

def jobs(tier, seed):
    return [Job("07.a/weekday", "c07::c07a_weekday", [], unwind=9, est=15, timeout=900, clause="07.a", bound="every f64 Julian date in [1721423.5, 5373484.5)"),
            Job("T60/tables", "pillar::t60_tables", [], est=5, clause="07.c", bound="all 60 names, all stem pairs, all branch pairs")]

def engine_b(tier, seed, scr):
    from props._b import engine
    from mir2smt import pillars
    eng, err = engine(scr, "07.c/B/day-pillar", "07.c")
    if eng is None:
        return err
    return [pillars.k_day_pillar(eng), pillars.k_day_view(eng), pillars.k_pillar_route(eng, "getter"), pillars.k_pillar_route(eng, "civil")]
