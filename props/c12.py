"""C12 — clock arithmetic and Julian date <-> clock (DESIGN §5 C12)."""
from verifkit.kani import Job
from props.c01 import ordinal, ORD_MIN, ORD_MAX

META = {
    "exhaustive_when_all_discharged": False,
    "decided": [
        "12.0 an instant is accepted iff hour<=23, minute<=59, second<=59 on an existing date",
        "12.a adding n seconds: day carry td handed to SolarDay::next and clock fields satisfy td*86400+secs(u)=secs(t)+n (the day step itself is C01)",
        "12.b difference of two instants = 86400*(day count difference) + clock difference",
        "12.c before/after = sign of that difference",
        "12.d every Julian date in the windows, fractions included, yields a constructible instant within 0.5 s (+1 ms float slack)",
        "12.e instant -> Julian date -> instant identity on the windows",
    ],
    "outside": ["12.d/12.e outside the stated windows (quick: 40-day windows in four eras; thorough: wider windows)"],
    "assumptions": [
        "stub fmt_empty for std::fmt::format (error payloads only)",
        "12.a: <SolarDay as Tyme>::next replaced by a ghost that records its argument and returns any valid date; that the real one moves by exactly n civil days is C01 (01.c/01.d/01.g)",
        "12.a/A/next-calendar: <SolarDay as Tyme>::next replaced by the closed form refcal::near for |n| <= 45 days (lemma 14.L + C01)",
        "12.b: SolarDay::get_julian_day replaced by the ghost strictly monotone day count (01.c + 01.r)",
        "12.d tolerance 0.501 s: 0.5 s rounding plus float round-off of the day fraction at 2^-31 day resolution",
    ],
}

def win(y, m, d, days):
    o = ordinal(y, m, d)
    return [max(o, ORD_MIN), min(o + days, ORD_MAX)]

def jobs(tier, seed):
    import random
    J = []
    T = tier == "thorough"
    J.append(Job("12.0/accept", "c12::c12_accept", [], est=30, clause="12.0", bound="all dates, h 0..30, m/s 0..70"))
    J.append(Job("12.a/A/next", "c12::c12a_next", [1000 if not T else 100000], stubs=["fmt_empty", "sd_next_ghost"], est=90 if not T else 2000, timeout=900 if not T else 2400,
                 witness_optional=[] if T else ["more than a day ahead"], clause="12.a",
                 bound="all instants, |n| <= %d (bit-blasted cross-check of the day hand-off; engine B covers |n| <= 1e9)" % (1000 if not T else 100000)))
    J.append(Job("12.a/A/next-calendar", "c12::c12a_next_cal", [1000 if not T else 20000, 1, 9999], stubs=["fmt_empty", "sd_next_near"], unwind=9, est=60 if not T else 1500, timeout=900 if not T else 2400,
                 clause="12.a", bound="all instants, |n| <= %d s, result date on the reference calendar (SolarDay::next = closed form near, lemma 14.L)" % (1000 if not T else 20000)))
    J.append(Job("12.c/order", "c12::c12c_order", [], est=50, timeout=900, clause="12.c", bound="all pairs of instants"))
    if T:
        J.append(Job("12.b/A/subtract", "c12::c12b_subtract", [], stubs=["fmt_empty", "sd_jd_ghost"], est=400, timeout=2400, clause="12.b", bound="all pairs of instants"))
    # 12.d / 12.e are split by hour of day (each slice is one query); windows of days
    rnd = random.Random(seed)
    hours_q = sorted(set([0, 12, 23] + rnd.sample(range(1, 23), 2)))
    if not T:
        dwins = [("m-end-2000", win(2000, 1, 30, 2), hours_q), ("cutover", win(1582, 10, 3, 2), [23])]
        ewins = [("y2000", [2000, 2000, 0], hours_q), ("y1582", [1582, 1582, 10], [23])]
    else:
        allh = list(range(24))
        dwins = [("m-end-2000", win(2000, 1, 30, 2), allh), ("cutover", win(1582, 9, 25, 30), allh), ("y1", win(1, 1, 1, 40), allh), ("y9999", win(9999, 11, 25, 40), allh),
                 ("y2024", win(2024, 1, 1, 366), allh), ("y1000", win(1000, 1, 1, 366), allh)]
        ewins = [("y2000", [2000, 2000, 0], allh), ("y1582", [1582, 1582, 0], allh), ("y1", [1, 1, 0], allh), ("y9999", [9999, 9999, 0], allh), ("y2001-2030", [2001, 2030, 0], allh)]
    for name, w, hours in dwins:
        for h in hours:
            J.append(Job("12.d/%s/h%02d" % (name, h), "c12::c12d_frac", w + [h], est=110, timeout=1200 if not T else 2400, clause="12.d",
                         bound="Julian dates of day numbers %d..%d, hour slice %d" % (w[0], w[1], h)))
    for name, w, hours in ewins:
        for h in hours:
            J.append(Job("12.e/%s/h%02d" % (name, h), "c12::c12e_roundtrip", w + [h], est=120, timeout=1200 if not T else 2400, clause="12.e",
                         witness_optional=["last second of an hour on the last day of a month"] if False else [],
                         bound="every instant of years %d..%d (month %s), hour %d" % (w[0], w[1], w[2] or "any", h)))
    return J


def describe(j, vals):
    import struct
    out = []
    for v in vals:
        out.append({"i64": v if v < (1 << 63) else v - (1 << 64), "f64": struct.unpack("<d", struct.pack("<Q", v))[0]})
    return out


def engine_b(tier, seed, scr):
    from verifkit import kani
    from mir2smt import kernels
    exes, err = kani.build_replayer(scr)
    if exes is None:
        return [dict(kernels.result("12.a/B/next", "12.a", "", []), reason="native evaluator does not build: " + err[-300:])]
    try:
        eng = kernels.Engine(scr.dir, replay_exe=exes[0])
    except Exception as e:
        return [dict(kernels.result("12.a/B/next", "12.a", "", []), reason="MIR dump failed: %r" % e)]
    return [kernels.k_solar_time_next(eng), kernels.k_solar_time_subtract(eng)]
