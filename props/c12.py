"""C12 — clock arithmetic and Julian date <-> clock (DESIGN §5 C12)."""
from verifkit.kani import Job
from props.c01 import ordinal, ORD_MIN, ORD_MAX

META = {
    "exhaustive_when_all_discharged": False,
    "decided": [
        "12.0 an instant is accepted iff hour<=23, minute<=59, second<=59 on an existing date",
        "12.a adding n seconds: day carry td handed to SolarDay::next and clock fields satisfy td*86400+secs(u)=secs(t)+n (the day step itself is C01)",
        "12.b difference of two instants = 86400*(day count difference) + clock difference",
        "12.c before/after = sign of that difference",
        "12.d every Julian date in the windows, fractions included, yields a constructible instant within 0.5 s (+1 ms float slack)",
        "12.e instant -> Julian date -> instant identity on the windows",
    ],
    "outside": ["12.d/12.e outside the stated windows (quick: 40-day windows in four eras; thorough: wider windows)"],
    "assumptions": [
        "stub fmt_empty for std::fmt::format (error payloads only)",
        "12.a: <SolarDay as Tyme>::next replaced by a ghost that records its argument and returns any valid date; that the real one moves by exactly n civil days is C01 (01.c/01.d/01.g)",
        "12.b: SolarDay::get_julian_day replaced by the ghost strictly monotone day count (01.c + 01.r)",
        "12.d tolerance 0.501 s: 0.5 s rounding plus float round-off of the day fraction at 2^-31 day resolution",
    ],
}

def win(y, m, d, days):
    o = ordinal(y, m, d)
    return [max(o, ORD_MIN), min(o + days, ORD_MAX)]

def jobs(tier, seed):
    J = []
    T = tier == "thorough"
    J.append(Job("12.0/accept", "c12::c12_accept", [], est=20, clause="12.0", bound="all dates, h 0..30, m/s 0..70"))
    J.append(Job("12.a/next-small", "c12::c12a_next", [100000], stubs=["fmt_empty", "sd_next_ghost"], est=300, timeout=1200 if not T else 2400, clause="12.a", bound="all instants, |n| <= 1e5 (bit-blasted; engine B covers |n| < 1e9)"))
    J.append(Job("12.b/subtract", "c12::c12b_subtract", [], stubs=["fmt_empty", "sd_jd_ghost"], est=60, timeout=900, clause="12.b", bound="all pairs of instants"))
    J.append(Job("12.c/order", "c12::c12c_order", [], est=40, timeout=900, clause="12.c", bound="all pairs of instants"))
    wins = [("y2000", win(2000, 1, 15, 40)), ("cutover", win(1582, 9, 25, 30)), ("y1", win(1, 1, 1, 40)), ("y9999", win(9999, 11, 25, 40))]
    if T:
        wins += [("y%d" % y, win(y, 1, 1, 366)) for y in (100, 1000, 1581, 1583, 1900, 2024, 5000, 9998)]
    for name, w in wins:
        J.append(Job("12.d/" + name, "c12::c12d_frac", w, est=300, timeout=1500 if not T else 2400, clause="12.d", bound="Julian dates %d-0.5 .. %d+0.5" % tuple(w)))
    eras = [(2000, 2000), (1582, 1582), (1, 1), (9999, 9999)]
    if T:
        eras += [(1000, 1009), (1583, 1600), (2001, 2030), (9990, 9998)]
    for a, b in eras:
        J.append(Job("12.e/y%d-%d" % (a, b), "c12::c12e_roundtrip", [a, b, 0], est=300, timeout=1500 if not T else 2400, clause="12.e", bound="every instant of years %d..%d" % (a, b)))
    return J

def describe(j, vals):
    import struct
    out = []
    for v in vals:
        out.append({"i64": v if v < (1 << 63) else v - (1 << 64), "f64": struct.unpack("<d", struct.pack("<Q", v))[0]})
    return out
