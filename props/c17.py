"""C17 — daily and hourly almanac cycles (DESIGN §5 C17)."""
from verifkit.kani import Job

META = {
    "exhaustive_when_all_discharged": False,
    "decided": [
        "17.a six-day star = (month number + day - 2) mod 6, a leap month using its own number",
        "17.b moon phase index = day - 1; minor Ren of a lunar month and of a lunar day",
        "17.d month nine star: first month 8 / 5 / 2 by year-branch group, one less each month",
        "17.e 28 mansions on the lunar-day and sexagenary-day routes: luminary = weekday, +1 per day (for every consistent weekday / day pillar pair)",
        "17.c flying nine star of the year descends one per year from 1864 = One White (period 180), LunarYear and SixtyCycleYear: quick tier on five 360-year windows (both ends of the range, the present, two rotated by VERIF_SEED), thorough tier on all 28 windows = every year -1..9999",
        "17.f flying nine star of the hour: ascending between the winter- and summer-solstice days, descending otherwise, first star by the day-branch group, one per double hour (lunar-hour and instant-level routes)",
        "17.h flying nine star of the day, dates on or after the civil year's first turning day: ascending one per day from One White at the Jiazi day nearest the winter solstice, descending one per day from Nine Purple at the Jiazi day nearest the summer solstice, a run lasting until the next turning day ('nearest': solstice pillar index > 29 takes the next Jiazi day, otherwise the previous one); both routes, every solstice table and pillar alignment",
        "17.i the same for the dates before the first turning day (continuing the run from the Jiazi day nearest the previous summer solstice): the real code counts back from the first turning day instead — KNOWN FINDING (star jumps on January 1 after a 240-day descending run); the check first proves that the code's behaviour there is exactly the count-back formula, any other deviation is a violation",
        "17.g day officer: Jian exactly when day branch = month branch, +1 per branch; Yellow/Black-path spirit from the month (day) branch for days (hours)",
    ],
    "outside": ["flying nine star of the year outside the windows of the tier (the thorough tier covers every year)",
                "that the month pillar used by the day officer is the one C08 leaves outside (switching at Jie days)"],
    "assumptions": [
        "engine B object model: axioms A-index (11.d), A-pillar (19.h); weekday = (N+1) mod 7 (07.a) and day pillar = (N+49) mod 60 (07.c) for day number N",
        "17.g lunar-hour spirits: the day pillar reported by the instant-level view (SixtyCycleHour::get_day) is the day pillar, rolled to the next one from 23:00 (C09's instant-level clause, assumed here); the hour pillar's branch is floor((h+1)/2) mod 12 (09.a)",
        "17.h/17.i: days are day numbers, the solstice days of the civil year (and the previous summer solstice) are arbitrary 170..195 days apart, day pillar = (N+49) mod 60 (07.c); SolarDay order/subtract/next on day numbers (C01)",
        "struct invariants: lunar month number 1..12, day 1..30, pillars 0..59",
    ],
}

def jobs(tier, seed):
    return []

def year_windows(tier, seed):
    """360-year windows for the year nine star: quick = the two ends, the present, and two seed-rotated ones; thorough = the whole range -1..9999"""
    allw = [(-1, 360)] + [(lo, min(lo + 360, 9999)) for lo in range(360, 9999, 360)]
    if tier == "thorough":
        return allw
    import random
    rnd = random.Random(seed)
    fixed = [(-1, 360), (1684, 2044), (9640, 9999)]
    extra = rnd.sample([w for w in allw[1:-1]], 2)
    return fixed + [w for w in extra if w not in fixed]

def engine_b(tier, seed, scr):
    from props._b import engine
    from mir2smt import pillars, almanac
    eng, err = engine(scr, "17.a/B/six-star", "17.a")
    if eng is None:
        return err
    return [pillars.k_six_star(eng), almanac.k_phase_ren(eng, "phase"), almanac.k_phase_ren(eng, "ren-month"), almanac.k_phase_ren(eng, "ren-day"),
            pillars.k_month_nine_star(eng), almanac.k_mansion(eng, "LunarDay"), almanac.k_mansion(eng, "SixtyCycleDay"),
            almanac.k_duty_twelve(eng, "duty"), almanac.k_duty_twelve(eng, "twelve"), almanac.k_hour_twelve(eng), almanac.k_lunar_hour_twelve(eng),
            almanac.k_hour_nine_star(eng, "LunarHour"), almanac.k_hour_nine_star(eng, "SixtyCycleHour"),
            almanac.k_day_nine_star(eng, "LunarDay", False), almanac.k_day_nine_star(eng, "SixtyCycleDay", False),
            almanac.k_day_nine_star(eng, "LunarDay", True), almanac.k_day_nine_star(eng, "SixtyCycleDay", True)] + \
           [almanac.k_year_nine_star(eng, w, lo, hi) for w in ("LunarYear", "SixtyCycleYear") for (lo, hi) in year_windows(tier, seed)]
