"""C01 — civil calendar <-> day count (DESIGN §5 C01)."""
from verifkit.kani import Job

ORD_MIN, ORD_MAX = 1721424, 5373484

def ordinal(y, m, d):
    a = 1 if m <= 2 else 0
    yy = y + 4800 - a; mm = m + 12 * a - 3
    base = d + (153 * mm + 2) // 5 + 365 * yy + yy // 4
    greg = (y, m, d) >= (1582, 10, 15)
    return base - yy // 100 + yy // 400 - 32045 if greg else base - 32083

ERAS = [(1, 200), (1500, 1700), (1890, 2050), (9800, 9999)]   # each Gregorian window contains a century year that is not a leap year
UNWRAP = [r"@ (std|core)::result::unwrap_failed"]

META = {
    "exhaustive_when_all_discharged": True,
    "decided": [
        "01.a a (year, month, day) triple is accepted iff the date exists (incl. the 1582 gap, Feb 29, month 0/13, year 0/10000)",
        "01.b anchors 0001-01-01 -> 1721423.5, 9999-12-31 -> 5373483.5, 1582-10-04/15 adjacent",
        "01.c the day count grows by exactly one along the civil successor, for every date (per month, all years) and equals refcal ordinal - 0.5",
        "01.d every day number in range maps back to a constructible date with that day count (surjectivity / inverse)",
        "01.e date -> day count -> date identity",
        "01.f before/after = chronological order, subtract = ordinal difference",
        "01.g stepping by n lands on ordinal + n",
        "01.h month length, year length, leap rule, day-of-year",
        "01.r reference calendar lemma ordinal(succ x) = ordinal(x)+1 (ties the oracle's two definitions together)",
    ],
    "outside": [],
    "assumptions": [
        "stub fmt_empty: std::fmt::format returns an empty String (the strings are Err/panic payloads that are never inspected)",
        "01.f/01.h day-of-year: SolarDay::get_julian_day replaced by refcal ordinal - 0.5, which 01.c proves equal to the real function for every date",
        "reference calendar harness/src/refcal.rs (integers only) is the oracle; 01.r and 01.h2 cross-check it",
        "Kani 0.68 / CBMC 6.11 / CaDiCaL; dev-profile MIR semantics; f64 bit-precise",
        "quick tier: 01.d/01.e/01.g2 on era windows (years 1-200, 1500-1700, 1950-2050, 9800-9999); thorough: whole range",
    ],
}

def jobs(tier, seed):
    J = []
    T = tier == "thorough"
    J.append(Job("01.a/accept", "c01::c01a_accept", [], est=20, clause="01.a", bound="y 1..9999, m 1..12, d 0..40"))
    J.append(Job("01.a/ranges", "c01::c01a_ranges", [], est=5, clause="01.a", bound="y -5..10005, m 0..20"))
    J.append(Job("01.a/refuse-month", "c01::c01a_refuse", [0], est=5, clause="01.a", bound="m in {0} u 13..20", allow_fail=UNWRAP, must_fail=True))
    J.append(Job("01.a/refuse-year", "c01::c01a_refuse", [1], est=5, clause="01.a", bound="y in -3..0 u 10000..10003", allow_fail=UNWRAP, must_fail=True))
    J.append(Job("01.b/anchors", "c01::c01b_anchor", [], est=25, clause="01.b", bound="concrete"))
    for m in range(1, 13):
        for (a, b) in [(1, 1582), (1583, 5000), (5001, 9999)]:
            J.append(Job("01.c/ord/m%02d/y%d-%d" % (m, a, b), "c01::c01c_ord", [m, a, b], est=40 + b // 200, timeout=1500, clause="01.c", bound="every date of month %d, years %d..%d" % (m, a, b)))
        J.append(Job("01.r/m%02d" % m, "c01::c01r_refcal", [m], est=25, timeout=900, clause="01.r", bound="every date of month %d" % m))
        if T:
            J.append(Job("01.c/succ/m%02d" % m, "c01::c01c_succ", [m, 1, 9999], est=200, timeout=2400, clause="01.c", bound="every date of month %d, years 1..9999 (direct +1 form)" % m))
    J.append(Job("01.f/order", "c01::c01f_order", [], est=30, timeout=900, clause="01.f", bound="all pairs of dates"))
    J.append(Job("01.f/subtract", "c01::c01f_subtract", [], stubs=["fmt_empty", "sd_jd_ghost"], est=30, timeout=900, clause="01.f", bound="all pairs of dates"))
    J.append(Job("01.g/next-exact", "c01::c01g_next_exact", [], est=10, clause="01.g", bound="all half-integer day counts in range, all n"))
    J.append(Job("01.h/lengths", "c01::c01h_lengths", [], est=20, timeout=900, clause="01.h", bound="all (y, m)"))
    J.append(Job("01.h/day-of-year", "c01::c01h_doy", [], stubs=["fmt_empty", "sd_jd_ghost"], est=20, timeout=900, clause="01.h", bound="all dates"))
    for (a, b) in ([(1, 4), (1580, 1584), (1998, 2001), (9996, 9999)] if not T else [(1, 1000), (1001, 1581), (1582, 1582), (1583, 3000), (3001, 5000), (5001, 7000), (7001, 9999)]):
        J.append(Job("01.h/day-of-year-cal/y%d-%d" % (a, b), "c01::c01h_doy_cal", [a, b], stubs=["fmt_empty", "sd_jd_ord"], unwind=14, est=15 if not T else 300, timeout=900 if not T else 2400,
                     clause="01.h", bound="all dates of years %d..%d" % (a, b)))
    J.append(Job("01.h/year-sum", "c01::c01h_year_sum", [], unwind=14, est=10, timeout=900, clause="01.h", bound="all years"))
    if not T:
        for (a, b) in ERAS:
            lo, hi = ordinal(a, 1, 1), ordinal(b, 12, 31)
            J.append(Job("01.d/y%d-%d" % (a, b), "c01::c01d_inverse", [lo, hi], est=120, timeout=900, clause="01.d", bound="day numbers of years %d..%d" % (a, b)))
        for (a, b) in [(1581, 1583), (1999, 2001)]:
            J.append(Job("01.e/y%d-%d" % (a, b), "c01::c01e_roundtrip", [0, a, b], est=100, timeout=900, clause="01.e", bound="all months, years %d..%d" % (a, b)))
            J.append(Job("01.g/next/y%d-%d" % (a, b), "c01::c01g_next", [a, b, 400], est=120, timeout=900, clause="01.g", bound="years %d..%d, |n|<=400" % (a, b)))
    else:
        step = 250000
        lo = ORD_MIN
        while lo <= ORD_MAX:
            hi = min(lo + step - 1, ORD_MAX)
            J.append(Job("01.d/n%d" % lo, "c01::c01d_inverse", [lo, hi], est=200, timeout=2400, clause="01.d", bound="day numbers %d..%d" % (lo, hi)))
            lo = hi + 1
        for m in range(1, 13):
            for (a, b) in [(1, 2000), (2001, 4000), (4001, 6000), (6001, 8000), (8001, 9999)]:
                J.append(Job("01.e/m%02d/y%d-%d" % (m, a, b), "c01::c01e_roundtrip", [m, a, b], est=120, timeout=2400, clause="01.e", bound="month %d, years %d..%d" % (m, a, b)))
        for (a, b) in [(1, 3), (1580, 1584), (1999, 2001), (9997, 9999)]:
            J.append(Job("01.g/next/y%d-%d" % (a, b), "c01::c01g_next", [a, b, 400], est=200, timeout=2400, clause="01.g", bound="years %d..%d, |n|<=400" % (a, b)))
    return J

def describe(j, vals):
    return {"harness": j.body, "params": j.params, "inputs_as_i64": [v if v < (1 << 63) else v - (1 << 64) for v in vals]}
