"""shared set-up of engine B for property modules"""
from verifkit import kani

def engine(scr, first_id, clause):
    from mir2smt import kernels
    exes, err = kani.build_replayer(scr)
    if exes is None:
        return None, [dict(kernels.result(first_id, clause, "", []), reason="native evaluator does not build: " + err[-300:])]
    try:
        return kernels.Engine(scr.dir, replay_exe=exes[0]), []
    except Exception as e:
        return None, [dict(kernels.result(first_id, clause, "", []), reason="MIR dump failed: %r" % e)]
