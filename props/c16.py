"""C16 — child limit arithmetic (DESIGN §5 C16)."""
from verifkit.kani import Job

META = {
    "exhaustive_when_all_discharged": False,
    "decided": [
        "16.a Default strategy: |seconds to the governing Jie| = 259200*years + 21600*months + 720*days + 30*hours + minutes/2 with months < 12, days < 30, hours < 24, minutes even < 60 (3 days = 1 year, 1 day = 4 months, 1 hour = 5 days, 1 minute = 2 hours, 1 second = 2 minutes); at most 10 whole years for a Jie within 32 days",
        "16.b China95 and LunarSect2 analogues on whole minutes; LunarSect1: the distance counted in whole days and double hours (branch index (h+1) div 2): years = T div 36, months = (T div 3) mod 12, days = 10 (T mod 3) for T = 12 * days + double hours, no clock part (every hour; 23:xx counts as index 11 of the day that ends — the strategy's own convention, part of its definition)",
        "16.d luck runs forward exactly for Yang-year men and Yin-year women; the Jie handed to the strategy is the next Jie after the birth instant if forward, the latest Jie at or before it if backward (the birth instant's term taken as given)",
        "16.e fortunes: the first decade fortune has index 0, the child limit's own decade -1, the first yearly fortune 0; decade fortune i has the month pillar stepped by +-(i+1) (sign = direction of luck), start age = (year the limit ends - birth year + 1) + 10 i, end age 9 later, first year = year the limit ends + 10 i, first yearly fortune index 10 i; yearly fortune i has age (year the limit ends - birth year + 1) + i, the hour pillar stepped by +-age, year = year the limit ends + i; next(n) adds n to the index and keeps the child limit",
        "16.c the end instant is built from birth + (years, months, days, hours, minutes, seconds): clock carries exact, day overflow carried through the month lengths (loop bound proved), start month = (birth year + years, birth month) stepped by months, every later step by one month; the day handed to the constructor lies in 1..month length",
    ],
    "outside": ["which term an instant belongs to (C06, taken as given by 16.d)", "the process-wide provider switch",
                "months with missing days: in October 1582 the day number handed on is a position, not a date (birth instants in Sep/Oct 1582 can panic; outside the decided clauses)"],
    "assumptions": [
        "ENV-J: the difference SolarTime::subtract(term instant, birth) is an arbitrary value within +-32 days (the governing Jie); subtract itself is C12 12.b",
        "SolarMonth::get_day_count is an arbitrary value 21..31 per month (C01 01.h); SolarMonth::next is C11 11.b; SolarTime getters return values in their struct-invariant ranges (C12 12.0)",
        "16.e: the eight characters' month and hour pillars, the direction flag and the two years (birth, end of limit; 0..11 apart) are arbitrary values; pillars step per A-index (11.d)",
        "engine B: mathematical integers with the compiled code's overflow asserts proved; z3 and cvc5 must agree",
    ],
}

def jobs(tier, seed):
    return []

def engine_b(tier, seed, scr):
    from props._b import engine
    from mir2smt import childlimit
    eng, err = engine(scr, "16.a/B/ratio/Default", "16.a")
    if eng is None:
        return err
    return [childlimit.k_ratio(eng, "Default"), childlimit.k_ratio(eng, "China95"), childlimit.k_ratio(eng, "LunarSect2"), childlimit.k_sect1(eng), childlimit.k_addition(eng), childlimit.k_direction(eng)] + \
        [childlimit.k_fortune(eng, w) for w in ("decade-pillar", "decade-start-age", "decade-end-age", "decade-year", "decade-next", "decade-start-fortune", "year-age", "year-pillar", "year-year", "year-next")] + \
        [childlimit.k_limit_fortunes(eng, w) for w in ("start-decade", "own-decade", "start-year")]
