"""C02 — solar <-> lunar conversion: the order-preserving and validation clauses (DESIGN §5 C02)."""
META = {
    "exhaustive_when_all_discharged": False,
    "decided": [
        "02.a lunar before/after = lexicographic order of (year, index in year, day), i.e. chronological order, including between a month and its leap twin, for any leap month of the year",
        "02.b LunarDay::new accepts exactly day 1..(day count of the month it looks up) and keeps that month",
    ],
    "outside": ["both round trips (civil -> lunar -> civil, lunar -> civil -> lunar) and 'consecutive civil days map to consecutive lunar days': they depend on the real new-moon table being gap-free (it is not in AD 9-25 and AD 240: 0025-01-10 -> 0025-02-08, recorded in DESIGN §4) and on the walk in SolarDay::get_lunar_day over it",
                "LunarHour ordering (delegates to the day order plus clock fields)"],
    "assumptions": [
        "month records satisfy the invariant established by LunarMonth::new (obligation 03.c): index in year = month - 1, +1 for the leap month and for months after it",
        "engine B: integer SMT from the compiler's MIR, z3 and cvc5 must agree; counterexamples are realised on a real year with that leap month before they are reported",
    ],
}

def jobs(tier, seed):
    return []

def engine_b(tier, seed, scr):
    from props._b import engine
    from mir2smt import lunar
    eng, err = engine(scr, "02.a/B/is_before", "02.a")
    if eng is None:
        return err
    return [lunar.k_day_order(eng, "is_before"), lunar.k_day_order(eng, "is_after"), lunar.k_day_new(eng), lunar.k_month_new(eng)]
