"""C02 — solar <-> lunar conversion: the order-preserving and validation clauses (DESIGN §5 C02)."""
META = {
    "exhaustive_when_all_discharged": False,
    "decided": [
        "02.a lunar before/after = lexicographic order of (year, index in year, day), i.e. chronological order, including between a month and its leap twin, for any leap month of the year",
        "02.c civil -> lunar: under a tiling month table (lengths 29..30) and the contract that the lunar month after the one carrying the civil month's number begins after the date, SolarDay::get_lunar_day reports the month containing the date and day = day number - month's first day + 1; lunar -> civil: LunarDay::get_solar_day = month's first day + day - 1. Hence both round trips are identities and consecutive civil days map to day+1 or day 1 of the following month wherever the table tiles",
        "02.d LunarDay::next(n) denotes the lunar date of the civil day n days later (composition of 02.c2, 01.g, 02.c); shortcuts that rebuild the date from month numbers must keep the month's identity (leap flag included)",
        "02.e LunarHour before/after = chronological order of (lunar day, hour, minute, second), lunar days ordered per 02.a",
        "02.b LunarDay::new accepts exactly day 1..(day count of the month it looks up) and keeps that month",
    ],
    "outside": ["that the real new-moon table tiles and satisfies the starting-month contract (it does not in AD 9-25 and AD 240: 0025-01-10 -> 0025-02-08, recorded in DESIGN §4; nor after a mis-set first-month offset, seeded change C02-A): data of the astronomical kernel"],
    "assumptions": [
        "month records satisfy the invariant established by LunarMonth::new (obligation 03.c): index in year = month - 1, +1 for the leap month and for months after it",
        "02.c: lunar months are objects on the month line (LunarMonth::next moves by one: 11.e) whose first-day numbers tile; days are day numbers (C01); the walk loop is unrolled 5 times with the bound proved; LunarDay's one-slot cache is empty",
        "engine B: integer SMT from the compiler's MIR, z3 and cvc5 must agree; counterexamples are realised on a real year with that leap month before they are reported",
    ],
}

def jobs(tier, seed):
    return []

def engine_b(tier, seed, scr):
    from props._b import engine
    from mir2smt import lunar
    eng, err = engine(scr, "02.a/B/is_before", "02.a")
    if eng is None:
        return err
    return [lunar.k_day_order(eng, "is_before"), lunar.k_day_order(eng, "is_after"), lunar.k_day_new(eng), lunar.k_month_new(eng),
            lunar.k_solar_to_lunar(eng), lunar.k_lunar_to_solar(eng), lunar.k_lunar_day_next(eng), lunar.k_lunar_hour_order(eng, "is_before"), lunar.k_lunar_hour_order(eng, "is_after")]
