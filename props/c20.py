"""C20 — festival and legal-holiday lookups (partial: only the stepping clause; DESIGN §6 / §9b)."""
META = {
    "exhaustive_when_all_discharged": False,
    "decided": [
        "20.c stepping a civil or lunar festival by n asks for the festival n places further along the festival list: the (year, index) handed to from_index satisfies year * size + index = (own year * size + own index + n) with 0 <= index < size, size = the number of names in the source's list; every year 1..9999, every list index, |n| <= 10^6, target year >= 1; the compiled code's overflow / division asserts proved",
    ],
    "outside": ["every lookup itself (from_index, from_ymd of festivals; every legal-holiday function): they compile and run a regex::Regex over a packed string — not encodable here",
                "founding years, shared days, New Year's Eve on day 29/30, the Qingming / winter-solstice term days, the legal-holiday table (order, uniqueness, compensation offsets)"],
    "assumptions": [
        "the festival's own index and the year of its day are arbitrary values in range (struct invariant of a constructed festival); AbstractCulture::index_of is the mathematical remainder (C11 11.a)",
        "engine B: mathematical integers with the compiled code's overflow asserts proved; z3 and cvc5 must agree; counterexamples are confirmed by a native scan of real festivals before they are reported",
    ],
}

def jobs(tier, seed):
    return []

def engine_b(tier, seed, scr):
    from props._b import engine
    from mir2smt import festivals
    eng, err = engine(scr, "20.c/B/solar-festival-next", "20.c")
    if eng is None:
        return err
    return [festivals.k_festival_next(eng, "solar"), festivals.k_festival_next(eng, "lunar")]
