"""C11 — stepping is a group action (DESIGN §5 C11)."""
import re, os, random
from verifkit.kani import Job

LOOP_TYPES = ["Animal", "Beast", "Constellation", "Direction", "Duty", "Element", "God", "Land", "Luck", "Phase", "Sixty", "Sound", "Taboo", "Ten",
              "Terrain", "Twenty", "Week", "Zodiac", "Zone", "Dog", "Nine", "PlumRain", "Phenology", "ThreePhenology", "PengZuHeavenStem",
              "PengZuEarthBranch", "MinorRen", "FetusHeavenStem", "FetusEarthBranch", "FetusMonth", "Dipper", "NineStar", "TenStar",
              "TwentyEightStar", "SixStar", "Ecliptic", "TwelveStar", "SevenStar", "HeavenStem", "EarthBranch", "SixtyCycle", "LunarSeason"]

SIZES = dict(zip(LOOP_TYPES, [28, 4, 12, 9, 12, 5, 151, 9, 2, 30, 3, 30, 141, 6, 12, 9, 7, 12, 4, 3, 9, 2, 72, 3, 10, 12, 6, 5, 6, 12, 9, 9, 10, 28, 6, 2, 12, 7, 10, 12, 60, 12]))

META = {
    "exhaustive_when_all_discharged": False,
    "decided": [
        "11.a index_of(i, size) = i mod size for |i| <= 2^62 and every table size that occurs in the source (engine B), no overflow",
        "11.b half-year / season / month: next(n) hands the constructor exactly year*size+index+n, refuses targets outside 1..9999 (engine B; hence next(0)=x, additivity, inverse)",
        "11.c solar term: from_index(y,i).next(n) = from_index(y,i+n) = term 24y+i+n, incl. year carry both ways, for every step whose target lies in a year >= 1",
        "11.d every LoopTyme-backed cycle type: from_index(i).next(n) has index (i+n) mod N, size N from the cycle's definition",
        "11.e lunar month: next(n) moves by exactly n on the month line of ANY leap table (hence identity, additivity, inverse)",
        "11.f lunar year, sexagenary year: year+n, refusal outside -1..9999; civil year: year+n, refusal outside 1..9999",
        "11.i lunar hour: next(n) is 2n hours later: the lunar day steps by floor((hour+2n)/24) (LunarDay::next, 02.d), the hour is the remainder in 0..23, minute and second are kept (engine B, |n| <= 10^8)",
        "11.j sexagenary day view: next(n) is the view of the civil day n days later; sexagenary instant view: next(n) the view of the instant n seconds later (engine B)",
        "11.h civil day and instant: by C01 (01.c/d/g) and C12 (12.a)",
    ],
    "outside": ["name<->index inverse and refusal of unknown names (LoopTyme::new by-name search is not symbolically executable, DESIGN §2 probe 21)",
                "lunar week / day / hour, sexagenary month / day / hour stepping, civil week (C14), decade and yearly fortunes"],
    "assumptions": [
        "11.d under Kani: AbstractCulture::index_of replaced by its relational specification (r in 0..size, index = k*size + r), which engine B proves of the real function for every size; natively the real function runs",
        "11.c / 11.e ENV-A: ShouXingUtil::calc_shuo / calc_qi return an arbitrary integral day in range (the claims do not depend on astronomy)",
        "11.e ENV-L: LunarYear::get_leap_month is a symbolic table over the window (any leap configuration, incl. ones no real year has); steps leaving the window are outside the claim; LunarMonth::from_ym = LunarMonth::new without the memo cache",
        "stub fmt_empty for std::fmt::format (error payloads)",
        "engine B: mathematical integers with the compiled code's own overflow asserts proved; z3 and cvc5 must agree",
    ],
}

def source_loop_types():
    found = []
    for root, _, files in os.walk(os.path.join(os.environ.get("VERIF_REPO", "/repo"), "src/tyme")):
        for f in files:
            if f.endswith(".rs"):
                s = open(os.path.join(root, f)).read()
                for m in re.finditer(r"pub struct (\w+)\s*\{\s*parent: LoopTyme", s):
                    found.append(m.group(1))
    return found

def table_sizes():
    sizes = set([2, 4, 7, 12, 24, 60])
    for root, _, files in os.walk(os.path.join(os.environ.get("VERIF_REPO", "/repo"), "src/tyme")):
        for f in files:
            if f.endswith(".rs"):
                s = open(os.path.join(root, f)).read()
                for m in re.finditer(r"NAMES: \[&str; (\d+)\]", s):
                    sizes.add(int(m.group(1)))
    return sorted(sizes)

def jobs(tier, seed):
    J = []
    T = tier == "thorough"
    rnd = random.Random(seed)
    types = list(range(len(LOOP_TYPES)))
    if not T:
        # a seed-rotated third of the types plus the ones the calendar paths depend on
        keep = set(rnd.sample(types, 14)) | {LOOP_TYPES.index(x) for x in ("HeavenStem", "EarthBranch", "SixtyCycle", "Week", "NineStar", "TwentyEightStar", "SixStar")}
        types = sorted(keep)
    for k in types:
        big = LOOP_TYPES[k] in ("God", "Taboo", "Phenology")
        J.append(Job("11.d/%s" % LOOP_TYPES[k], "c11::c11d_%s" % LOOP_TYPES[k].lower(), [], stubs=["fmt_empty", "index_of_spec"], unwind=SIZES[LOOP_TYPES[k]] + 2, est=60 if not big else 200,
                     timeout=900 if not T else 2400, mem_gb=4 if not big else 8, clause="11.d", bound="|i|,|n| <= 2^31"))
    J.append(Job("11.c/term", "c11::c11c_term", [30 if not T else 100], stubs=["fmt_empty", "qi_any"], unwind=26, est=200, timeout=1200 if not T else 2400,
                 mem_gb=6, clause="11.c", bound="y 2..9998, |n| <= %d" % (30 if not T else 100)))
    J.append(Job("11.e/lunar-month", "c11::c11e_lunar_month", [2000, 5, 14] if not T else [2000, 7, 26], stubs=["fmt_empty", "shuo_any", "qi_any", "leap_model", "from_ym_new"],
                 unwind=26, est=300, timeout=1500 if not T else 2400, mem_gb=8, n_inputs=(5 if not T else 7) + 4, clause="11.e",
                 bound="any leap table on a %d-year window, |n| <= %d" % ((5, 14) if not T else (7, 26))))
    J.append(Job("11.f/years", "c11::c11f_years", [], est=10, clause="11.f", bound="all years, |n| <= 10010"))
    return J

def engine_b(tier, seed, scr):
    from verifkit import kani
    from mir2smt import kernels
    out = []
    src = set(source_loop_types())
    known = set(LOOP_TYPES) | {"SolarTerm"}
    r = kernels.result("11.d/type-inventory", "11.d", "LoopTyme-backed structs found in /repo/src vs. the harness table", [])
    r["engine"] = "source scan"
    missing = sorted(src - known)
    if missing:
        r["status"], r["reason"] = "inconclusive", "cycle types present in the source but unknown to the harness (uncovered): " + ", ".join(missing)
    else:
        r["status"] = "discharged"
    r["types_in_source"] = len(src)
    out.append(r)
    exes, err = kani.build_replayer(scr)
    if exes is None:
        out.append(dict(kernels.result("11.a/B", "11.a", "", []), reason="native evaluator does not build: " + err[-300:]))
        return out
    try:
        eng = kernels.Engine(scr.dir, replay_exe=exes[0])
    except Exception as e:
        out.append(dict(kernels.result("11.a/B", "11.a", "", []), reason="MIR dump failed: %r" % e))
        return out
    out += kernels.k_index_of(eng, table_sizes())
    out += [kernels.k_stepper(eng, k) for k in ("month", "season", "half")]
    from mir2smt import lunar
    out.append(lunar.k_lunar_hour_next(eng))
    from mir2smt import pillars
    out += [pillars.k_view_next(eng, "day"), pillars.k_view_next(eng, "hour")]
    return out

def fallback_candidates(j):
    """concrete inputs for the native confirmation of a solver-flagged obligation whose trace run delivered no values"""
    if j.body.endswith("c11c_term"):
        return [[y, i, n] for y in (2023, 2) for n in list(range(-30, 31)) for i in range(24)]
    if j.body.endswith("c11e_lunar_month"):
        # draw order: the window's leap table, then year, month, leap flag, n.  The real leap months of the window's years (the replayer
        # looks the table up among the real years), every month of the inner years, every step size of the tier
        REAL = {1998: 5, 1999: 0, 2000: 0, 2001: 4, 2002: 0, 2003: 0, 2004: 2, 2005: 0, 2006: 7, 2007: 0, 2008: 0, 2009: 5, 2010: 0}
        y0, w, nmax = int(j.params[0]), int(j.params[1]), int(j.params[2])
        table = [REAL.get(y0 + k, 0) for k in range(w)]
        out = []
        for y in range(y0 + 1, y0 + w - 1):
            for m in range(1, 13):
                for lf in ((0, 1) if REAL.get(y, 0) == m else (0,)):
                    for n in range(-nmax, nmax + 1):
                        out.append(table + [y, m, lf, n])
        return out
    return []

def describe(j, vals):
    return {"inputs_as_i64": [v if v < (1 << 63) else v - (1 << 64) for v in vals]}
