"""C14 — weeks of a month (DESIGN §5 C14)."""
import random
from verifkit.kani import Job

STUBS = ["fmt_empty", "sd_next_near", "sd_jd_rel", "index_of_small"]

META = {
    "exhaustive_when_all_discharged": False,
    "decided": [
        "14.a every civil month x start weekday x week index: accepted iff index < week count; count = ceil((offset of the 1st + month length)/7); first day = 1st - offset + 7*index and falls on the chosen weekday; week 0 contains the 1st, the last week the month's last day (incl. October 1582)",
        "14.a2 the seven days of a week are its first day and the six days after it",
        "14.b the week reported for a date contains it and starts on the chosen weekday (every date, every start)",
        "14.L reference-calendar lemma for the small-step stand-in",
        "14.c stepping a civil week by n moves its first day by 7n and lands on a valid week index, for every month-start / month-length table, start weekday, valid index and |n| <= 6 (engine B; month-border loop unrolled with the bound proved)",
        "14.d the index of a civil week in its year = (its first day - first day of the week, same start weekday, that contains January 1 of the month's year) / 7, for every year start and length, month inside the year, start weekday and valid index (engine B; search loop unrolled 55 times, bound proved)",
        "14.h a civil or lunar week lists seven days: its first day and the six after it, in order (engine B; LunarDay::next per 02.d); 14.i a civil or lunar month lists exactly its weeks: index 0..count-1 of this month with the chosen start, in order",
        "14.j week count of a civil / lunar month = ceil((offset of the 1st + length) / 7); 14.k SolarWeek::new / LunarWeek::new accept exactly start <= 6 and index < that count, look up that very month and store index and start (engine B)",
        "14.f the same for lunar weeks (month lengths 29..30); 14.g first day of a lunar week: weekday, position, coverage (engine B); 14.a/B the civil first-day clause again on engine B",
    ],
    "outside": [
                "week stepping for |n| > 6 (civil) / 8 (lunar)"],
    "assumptions": [
        "SolarDay::get_julian_day = (day count of the month's 1st) + days between - 0.5 (refcal::rel_offset, sums of month lengths; 01.c/01.r/13.L); the day count of the 1st is one concrete representative per weekday (7 jobs): magnitude bound, the weekday function itself is 07.a",
        "<SolarDay as Tyme>::next(n), |n| <= 45, = closed form refcal::near (lemma 14.L; 01.c/01.d/01.g); other uses are flagged, never assumed away",
        "AbstractCulture::index_of as a 32-bit computation for |index| < 2^30 (engine B: the real one is the mathematical mod)",
        "stub fmt_empty for std::fmt::format (error payloads)",
        "engine B week kernels: months are objects on a month line with tiling first-day numbers (civil lengths any 21..31, lunar 29..30); the first of a month falls on weekday (day number + 1) mod 7 (07.a); index_of is the mathematical remainder (11.a); (x as f64 / 7.0).ceil() = ceiling division (exact for these magnitudes); Week equality = index equality (names are distinct: 11.d)",
        "14.d: days are day numbers, a week is its first day (14.a), stepping a week moves it 7 days (14.c), January 1 and the year lengths (355..366) are arbitrary, SolarDay equality = equal day numbers (01.b)",
        "quick tier: Monday (the real weekday of 1582-10-01) plus one more of the 7 weekdays of the 1st, rotated by VERIF_SEED; thorough: all 7",
    ],
}

def jobs(tier, seed):
    J = []
    T = tier == "thorough"
    rnd = random.Random(seed)
    J.append(Job("14.L/near", "c14::c14l_near", [], est=15, clause="14.L", bound="every date, |n| <= 45"))
    wds = list(range(7)) if T else sorted(set([1] + rnd.sample([0, 2, 3, 4, 5, 6], 1)))   # 1 = Monday: the real weekday of 1582-10-01
    for wd in wds:
        J.append(Job("14.a/weeks/wd%d" % wd, "c14::c14a_weeks", [1, 9999, wd], stubs=STUBS, unwind=9, est=250, timeout=1500 if not T else 2400, mem_gb=4,
                     clause="14.a", bound="every month of years 1..9999, every start, every index; 1st of the month on weekday %d" % wd))
        J.append(Job("14.b/week-of-date/wd%d" % wd, "c14::c14b_week_of_date", [1, 9999, wd], stubs=STUBS, unwind=9, est=200, timeout=1500 if not T else 2400, mem_gb=4,
                     clause="14.b", bound="every date of years 1..9999, every start; 1st of the month on weekday %d" % wd))
    for wd in (range(7) if T else sorted(rnd.sample(range(7), 1))):
        J.append(Job("14.a/days/wd%d" % wd, "c14::c14a_days", [1, 9999, wd], stubs=STUBS, unwind=9, est=200, timeout=1500 if not T else 2400, mem_gb=4,
                     clause="14.a2", bound="every week of every month of years 1..9999; 1st of the month on weekday %d" % wd))
    return J

def engine_b(tier, seed, scr):
    from props._b import engine
    from mir2smt import weeks, lists
    eng, err = engine(scr, "14.c/B/week-next", "14.c")
    if eng is None:
        return err
    return [weeks.k_week_first_day(eng, False), weeks.k_week_first_day(eng, True), weeks.k_week_index_in_year(eng), weeks.k_week_new(eng, False), weeks.k_week_new(eng, True), weeks.k_week_count(eng, False), weeks.k_week_count(eng, True), lists.k_week_days(eng, False), lists.k_week_days(eng, True), lists.k_month_weeks(eng, False), lists.k_month_weeks(eng, True), weeks.k_week_next(eng, True), weeks.k_week_next(eng, False)]

def fallback_candidates(j):
    """concrete inputs for the native confirmation of a solver-flagged obligation (the body's draw order)"""
    out = []
    ys = [1582, 2024, 1900, 1]
    if j.body.endswith("c14a_weeks") or j.body.endswith("c14a_days"):
        for y in ys:
            for m in range(1, 13):
                for start in range(7):
                    for idx in range(0, 7 if j.body.endswith("c14a_weeks") else 6):
                        out.append([y, m, start, idx])
    elif j.body.endswith("c14b_week_of_date"):
        for y in ys:
            for m in range(1, 13):
                for d in (1, 2, 4, 15, 16, 20, 28, 30, 31):
                    for start in range(7):
                        out.append([y, m, d, start])
    return out

def describe(j, vals):
    return {"inputs_as_i64": [v if v < (1 << 63) else v - (1 << 64) for v in vals]}
