"""C19 — stem and branch attributes vs. first principles (DESIGN §5 C19)."""
from verifkit.kani import Job

STUBS = ["fmt_empty", "index_of_small"]
META = {
    "exhaustive_when_all_discharged": True,
    "decided": [
        "19.a stems: element, polarity, direction, joy / yang-noble / yin-noble / wealth / fortune direction rhymes",
        "19.b twelve growth stages on all 10x12 (stem, branch) pairs: forward from the birth branch for Yang, backward for Yin",
        "19.c ten-star relation on all 10x10 pairs from element relation and polarity",
        "19.d five combinations (involution, pairs, transformed element)",
        "19.e branches: element, polarity, direction, zodiac animal, ominous direction",
        "19.f hidden stems main / middle / residual; the list form (main, then middle and residual where they exist, tagged with their kind) on engine B",
        "19.g clash, six combinations, harms: involutions on the classical pair sets, transformed element",
        "19.h sixty pillars: stem/branch decomposition, Nayin, decade (Xun), void branches",
        "19.i element generate / overcome as inverse pairs, element <-> direction; direction -> element for all nine palaces (trigram elements; engine B)",
        "19.j zodiac sign for all 366 month-day pairs",
        "19.l eight-character derived signs on all pillar combinations (engine B): foetal origin, foetal breath, own sign (命宫: month number + hour number + sign number = 14 or 26, Five-Tigers stem), body sign (身宫)",
        "19.k/B the nine fields of heaven sit in the nine palaces (Land -> Direction), the four palaces' divine beasts (Zone -> Beast), the nine 20-year periods in their three 60-year epochs (Twenty -> Sixty): rules stated on names, index orders read from the source (engine B)",
        "19.k 28 mansions (luminary, zone, animal, the nine fields), nine stars (element, direction, dipper), twelve spirits (yellow/black path)",
    ],
    "outside": ["Zone::get_direction and foetus-spirit name strings (generic lookup by name)", "Peng Zu texts, nine-star colours (plain strings)",
                "28-mansion luck table, foetus-spirit tables: not built in this revision"],
    "assumptions": [
        "AbstractCulture::index_of as a 32-bit computation for |index| < 2^30 (engine B proves the real one is the mathematical mod for every table size); natively the real function runs",
        "stub fmt_empty for std::fmt::format (error payloads)",
        "19.l engine B object model: axioms A-index, A-pillar (19.h), A-name (T60 + trusted LoopTyme::new), A-format",
        "the first-principles tables in harness/src/c19.rs are the oracle (written from the classical rules quoted there)",
    ],
}

def jobs(tier, seed):
    J = []
    spec = [("19.a/stem-basic", "c19a_stem_basic", 14, 150, "all 10 stems"), ("19.b/terrain", "c19b_terrain", 14, 60, "all 10x12 pairs"),
            ("19.c/ten-star", "c19c_ten_star", 14, 60, "all 10x10 pairs"), ("19.d/stem-combine", "c19d_stem_combine", 14, 90, "all 10x10 pairs"),
            ("19.e/branch-basic", "c19e_branch_basic", 14, 90, "all 12 branches"), ("19.f/hidden", "c19f_hidden", 14, 60, "all 12 branches"),
            ("19.g/clash-harm", "c19g_branch_relations:0", 14, 150, "all 12 branches"), ("19.g/six-combine", "c19g_branch_relations:1", 14, 150, "all 12x12 pairs"),
            ("19.h/decompose", "c19h_pillar:0", 62, 200, "all 60 pillars"), ("19.h/nayin", "c19h_pillar:1", 62, 200, "all 60 pillars"),
            ("19.h/xun", "c19h_pillar:2", 62, 200, "all 60 pillars"), ("19.h/void", "c19h_pillar:3", 62, 200, "all 60 pillars"),
            ("19.i/element", "c19i_element", 11, 60, "all 5 elements"), ("19.j/constellation", "c19j_constellation", 14, 40, "all 366 month-day pairs"),
            ("19.k/stars", "c19k_stars", 30, 120, "28 mansions, 9 stars, 12 spirits")]
    for jid, body, unwind, est, bound in spec:
        body, _, par = body.partition(":")
        wo = {"19.g/clash-harm": ["a combining pair"], "19.g/six-combine": ["last branch"]}.get(jid, [])
        J.append(Job(jid, "c19::" + body, [int(par)] if par else [], stubs=STUBS, witness_optional=wo, unwind=unwind, est=est, timeout=1500, mem_gb=6 if "pillar" in jid else 4, clause=jid.split("/")[0], bound=bound))
    J.append(Job("T60/tables", "pillar::t60_tables", [], est=5, clause="19.l", bound="all 60 names, all stem pairs, all branch pairs"))
    return J

def engine_b(tier, seed, scr):
    from props._b import engine
    from mir2smt import pillars
    eng, err = engine(scr, "19.l/B/own-sign", "19.l")
    if eng is None:
        return err
    from mir2smt import almanac
    return [pillars.k_eight_char(eng, k) for k in range(4)] + [almanac.k_hidden_stem_list(eng), almanac.k_direction_element(eng)] + \
        [almanac.k_name_table(eng, o, m, rk, rule) for o, m, rk, rule in almanac.NAME_RULES]

def fallback_candidates(j):
    """the finite domains, enumerated — used only to find a concrete witness after the solver has flagged the obligation and its trace run
    delivered no input values"""
    b = j.body.split("::")[-1]
    R = range
    if b in ("c19a_stem_basic",):
        return [[s] for s in R(10)]
    if b == "c19b_terrain":
        return [[s, e] for s in R(10) for e in R(12)]
    if b in ("c19c_ten_star", "c19d_stem_combine"):
        return [[a, c] for a in R(10) for c in R(10)]
    if b in ("c19e_branch_basic", "c19f_hidden"):
        return [[e] for e in R(12)]
    if b == "c19g_branch_relations":
        return [[a, c] for a in R(12) for c in R(12)]
    if b == "c19h_pillar":
        return [[k] for k in R(60)]
    if b == "c19i_element":
        return [[e] for e in R(5)]
    if b == "c19j_constellation":
        return [[m, d] for m in R(1, 13) for d in R(1, 32)]
    if b == "c19k_stars":
        return [[k, 0, 0] for k in R(28)] + [[0, n, 0] for n in R(9)] + [[0, 0, t] for t in R(12)]
    return []

def describe(j, vals):
    return {"inputs_as_i64": [v if v < (1 << 63) else v - (1 << 64) for v in vals]}
