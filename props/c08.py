"""C08 — year and month pillars, Five Tigers (DESIGN §5 C08)."""
from verifkit.kani import Job

META = {
    "exhaustive_when_all_discharged": False,
    "decided": [
        "08.a year pillar of LunarYear / SixtyCycleYear y has index (y - 4) mod 60, every year -1..9999",
        "08.b LunarMonth::get_sixty_cycle: branch (index in year + 2) mod 12, stem by Five Tigers from the year stem, for every year and every index 0..12 (hence only legal year/month pairs on this route)",
        "08.c SixtyCycleYear::get_first_month is the Yin month with the Five-Tigers stem",
        "08.d day view (SixtyCycleDay::from_solar_day): the year pillar is the civil year's from the Lichun DAY on and the previous year's before it; the month pillar is the Yin month's pillar advanced once per Jie passed since Lichun (floor of half the term distance); the day pillar is the lunar day's — for every date, Lichun day and term position (engine B; confirmed by a native scan of ten years)",
        "11.g SixtyCycleMonth::next(n): pillar +n mod 60, year = floor((12y + index + n)/12)",
    ],
    "outside": ["the instant-level view (SixtyCycleHour::from_solar_time: switching at the exact term instants)",
                "that the lunar year of a civil date is the civil year or the one before, and that the date's term is the right one (C06) — taken as given by 08.d",
                "agreement of the instant-level and day-level views"],
    "assumptions": [
        "engine B object model: axioms A-index, A-pillar (19.h), A-name (T60 + trusted LoopTyme::new), A-format; listed per kernel in the evidence",
        "struct invariants: LunarMonth.index_in_year in 0..12, years in -1..9999",
        "08.d: days are day numbers with SolarDay order per C01; the first lunar month's pillar obeys Five Tigers (08.b); (x as f64 / 2.0).floor() = floor division by 2 (exact in f64)",
    ],
}

def jobs(tier, seed):
    return [Job("T60/tables", "pillar::t60_tables", [], est=5, clause="08.b", bound="all 60 names, all stem pairs, all branch pairs")]

def engine_b(tier, seed, scr):
    from props._b import engine
    from mir2smt import pillars
    eng, err = engine(scr, "08.b/B/month-pillar", "08.b")
    if eng is None:
        return err
    return [pillars.k_year_pillar(eng, "LunarYear"), pillars.k_year_pillar(eng, "SixtyCycleYear"), pillars.k_month_pillar(eng), pillars.k_first_month(eng), pillars.k_sixty_month_next(eng), pillars.k_day_view(eng)]
