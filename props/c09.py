"""C09 — hour pillar and 23:00 roll-over (DESIGN §5 C09)."""
from verifkit.kani import Job

META = {
    "exhaustive_when_all_discharged": False,
    "decided": [
        "09.a on the lunar-hour route, for all 60 day pillars x 24 hours: hour branch = floor((h+1)/2) mod 12, hour stem by Five Rats from the day stem, and from 23:00 the day pillar used is the next day's",
        "09.c instant-level view (SixtyCycleHour::from_solar_time): the day pillar it reports is the next day's from 23:00; its hour pillar has branch floor((h+1)/2) mod 12 and the Five-Rats stem of that rolled day pillar; its year pillar turns at the Lichun instant and its month pillar at each Jie instant (given the instant's term)",
        "09.d composition: SixtyCycleHour::get_eight_char and the default provider store exactly the view's year, month, day and hour pillars in that order, the LunarSect2 provider the same with the lunar day's own (unrolled) day pillar; EightChar's four getters return what was stored",
        "09.e inverse search (EightChar::get_solar_times), what it TRIES: every year of the range (and the year before its first: January belongs to it) that carries the wanted year pillar is visited, incl. stepping by whole 60-year cycles; for every visited year whose candidate day (the term day with the wanted day pillar, 0..59 days after the Jie) lies in a civil year >= start_year, an instant in the hour pillar's double hour is tried (engine B; cycle loop unrolled with the bound proved; infeasible paths pruned at loop back-edges only on both solvers' `unsat`)",
        "09.b LunarHour::new refuses hour > 23, minute > 59, second > 59 before it builds the day",
    ],
    "outside": [                "that the lunar year of an instant is the civil year or the one before and that the instant's term is the right one (taken as given by 09.c)",
                "inverse search: that every returned instant has the wanted characters (the code verifies each tried instant by comparing its eight characters: 09.c/09.d), ranges wider than 130 years, double hours that contain a Jie instant"],
    "assumptions": [
        "09.a: the day pillar is an arbitrary pillar (LunarDay::get_sixty_cycle replaced by Obj(p), p in 0..59); its value as a function of the date is 07.c",
        "engine B object model: axioms A-index, A-pillar, A-name, A-format; listed per kernel in the evidence",
        "09.c: instants are numbers ordered per C12 12.c; the lunar hour's pillar satisfies 09.a; the first lunar month's pillar obeys Five Tigers (08.b)",
        "09.d: the four pillars reported by the instant-level view are arbitrary pillars (their values are 09.c / 08 / 07); which provider is installed process-wide is not decided (both shipped providers are)",
        "09.e: terms are (term-year, index) pairs whose civil year is the term-year, or the next one for index >= 24; the pillar of the term day and the Jie's clock fields are arbitrary; the candidate day's civil year is the term's or the next; every tried instant is taken as kept; case split: candidate day = term day / 1..59 days later; range width <= 57 years (quick) and <= 130 (thorough)",
        "09.b: LunarDay::from_ymd replaced by a stub that fails if reached; fmt_empty",
    ],
}

def jobs(tier, seed):
    return [Job("09.b/refuse", "c07::c09b_refuse", [], stubs=["fmt_empty", "lunar_day_never"], unwind=9, est=5, clause="09.b", bound="hour 0..40, minute/second 0..80, at least one out of range"),
            Job("T60/tables", "pillar::t60_tables", [], est=5, clause="09.a", bound="all 60 names, all stem pairs, all branch pairs")]

def engine_b(tier, seed, scr):
    from props._b import engine
    from mir2smt import pillars
    eng, err = engine(scr, "09.a/B/hour-pillar", "09.a")
    if eng is None:
        return err
    from mir2smt import inverse
    inv = [inverse.k_inverse_search(eng, 57, "zero"), inverse.k_inverse_search(eng, 57, "pos")] + ([inverse.k_inverse_search(eng, 130, "pos")] if tier == "thorough" else [])
    return [pillars.k_hour_pillar(eng), pillars.k_day_view(eng, True)] + inv + [pillars.k_compose(eng, w) for w in ("instant", "default", "sect2", "getter-year", "getter-month", "getter-day", "getter-hour")]
