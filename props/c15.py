"""C15 — term-anchored day series (DESIGN §5 C15)."""
META = {
    "exhaustive_when_all_discharged": False,
    "decided": [
        "15.a the 81 days from each winter-solstice day are the nine Nines, nine days each, and no other day is one",
        "15.b every day lies in one of the 72 pentads: three per term (days 0-4, 5-9, 10+), day index inside the pentad",
        "15.c Dog days: from the third Geng day on or after the summer-solstice day: ten days, then ten or twenty according to whether the fifth Geng day precedes the start-of-autumn day, then ten; no other day is one",
        "15.d Plum rains: from the first Bing day on or after Grain in Ear to the first Wei day on or after Slight Heat",
    ],
    "outside": ["commanding (hidden) stems of the day: the allotment is read by slicing a packed digit string", "which term a day belongs to (C06) — the pentad kernel takes the day's term and its day as given (0..16 days ago)"],
    "assumptions": [
        "term days are abstract day numbers under spacing contracts only (solstices 355..366 days apart, start of autumn 42..48 days after the summer solstice, Slight Heat 28..32 days after Grain in Ear)",
        "day pillar of a day number N is (N + 49) mod 60 (C07 07.c); SolarDay::next / subtract / is_before / is_after / eq act on day numbers (C01); LoopTyme::steps_to = index_of (11.a)",
        "engine B object model axioms A-index; counterexamples are confirmed by a native scan of 14 real years before they are reported",
    ],
}

def jobs(tier, seed):
    return []

def engine_b(tier, seed, scr):
    from props._b import engine
    from mir2smt import seasons
    eng, err = engine(scr, "15.a/B/nines", "15.a")
    if eng is None:
        return err
    return [seasons.k_nine(eng), seasons.k_pentad(eng), seasons.k_dog(eng), seasons.k_plum(eng)]
