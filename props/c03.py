"""C03 — lunar months tile time: the structural clauses (DESIGN §5 C03)."""
from verifkit.kani import Job
from props import c11, c13

META = {
    "exhaustive_when_all_discharged": False,
    "decided": [
        "03.a stepping month by month moves by exactly n on the month line of ANY leap table: forward then back returns to the same month, the leap month directly follows the regular month of the same number (= 11.e)",
        "03.c LunarMonth::new: accepted iff month in 1..12 or the negative of the year's leap month; index in year = month - 1 (+1 for the leap month and after it); 12 or 13 positions (engine B, any leap table, any astronomy)",
        "03.b a lunar year lists its 12 or 13 months in index order (engine B: the listing loop on a month line, both tiers; the Kani version over a symbolic leap window is C13's thorough obligation 13.c)",
        "03.d the year's day count is the sum of the day counts of the listed months (summing loop unrolled, bound proved), hence 348..360 / 377..390 for 29..30-day months and, wherever months abut, the distance between successive new-year days",
    ],
    "outside": ["29/30-day month lengths, exact abutment of consecutive months, 353-355 / 383-385-day years, agreement of per-month and per-year day counts with new-year distances: facts about ~123,700 evaluated lunations of the real new-moon series (no symbolic handle: sin/cos series)"],
    "assumptions": c11.META["assumptions"][1:3] + ["03.c: floating-point values of the astronomical kernel and every comparison between them are arbitrary (ENV-A); LunarYear::get_leap_month arbitrary per year (ENV-L)"],
}

def jobs(tier, seed):
    J = [j for j in c11.jobs(tier, seed) if j.id.startswith("11.e")]
    for j in J:
        j.clause = "03.a"
    # the Kani version of the year listing (13.c, a 40-minute obligation that timed out in the session's thorough sweep) is run under C13 only;
    # here the listing loop is decided by engine B (13.c/B) in both tiers
    return J

def engine_b(tier, seed, scr):
    from props._b import engine
    from mir2smt import lunar
    eng, err = engine(scr, "03.c/B/month-new", "03.c")
    if eng is None:
        return err
    from mir2smt import lists
    return [lunar.k_month_new(eng), lists.k_lunar_year_months(eng, 12), lists.k_lunar_year_months(eng, 13), lists.k_lunar_year_days(eng, 12), lists.k_lunar_year_days(eng, 13)]
