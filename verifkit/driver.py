"""Check driver: runs the obligations of one property, replays counterexamples natively, writes evidence,
prints VIOLATION / KNOWN-FINDING lines and returns the exit code."""
import os, sys, json, time, importlib, hashlib, subprocess, traceback
from . import kani

VERIF = kani.VERIF
EVID = os.path.join(VERIF, "evidence")
FINDINGS = os.path.join(VERIF, "known_findings.json")


def load_findings():
    try:
        return json.load(open(FINDINGS))["findings"]
    except Exception:
        return []


def repo_fingerprint():
    h = hashlib.sha256()
    for root, _, files in sorted(os.walk(os.path.join(kani.REPO, "src"))):
        for f in sorted(files):
            p = os.path.join(root, f)
            h.update(p.encode())
            h.update(open(p, "rb").read())
    return h.hexdigest()[:16]


def decode_inputs(cex, n_inputs):
    vals = [v for v, _ in (cex or [])]
    if n_inputs is not None:
        vals = vals[:n_inputs]
    return vals


def run_property(pid, tier, seed, only=None, keep=False, nworkers=16):
    t0 = time.time()
    mod = importlib.import_module("props." + pid.lower())
    jobs = mod.jobs(tier, seed)
    if only:
        jobs = [j for j in jobs if any(j.id.startswith(o) for o in only)]
    engine_b = getattr(mod, "engine_b", None)
    scr = kani.Scratch("run")
    violations, known_seen, unreal = [], [], []
    findings = [f for f in load_findings() if f.get("property") == pid]
    results = []
    b_results = []
    try:
        scr.prepare(jobs)
        import threading
        bthread = None
        if engine_b:
            # engine B (seconds to a minute of solver time) runs alongside the Kani jobs
            def run_b():
                try:
                    b_results.extend(engine_b(tier, seed, scr))
                except Exception as e:  # pragma: no cover
                    b_results.append({"id": "engine-B", "obligation": "engine-B", "status": "inconclusive", "reason": "engine B crashed: %r" % e, "wall_s": 0})
            bthread = threading.Thread(target=run_b, daemon=True)
            bthread.start()
        if jobs:
            ok, msg = kani.build_template(scr)
            if not ok:
                print("INCONCLUSIVE: harness crate does not build against the current tree")
                print(msg[-3000:])
                # a tree the harnesses cannot be compiled against is not a verdict on the property
                results = [kani.Result(job=j, status="inconclusive", reason="harness crate does not compile") for j in jobs]
            else:
                def progress(r):
                    print("  [%s] %-28s %6.1fs  %s" % (r.status[:4], r.job.id, r.wall_s, r.reason[:150]), flush=True)
                results = kani.run_jobs(scr, jobs, nworkers=nworkers, seed=seed, progress=progress)
        if bthread:
            bthread.join()
            for b in b_results:
                print("  [%s] %-28s %6.1fs  %s" % (b["status"][:4], b["id"], b.get("wall_s", 0), b.get("reason", "")[:150]), flush=True)
        # ---- counterexamples -> native replay
        failed = [r for r in results if r.status == "failed"]
        exes = None
        for r in failed:
            if exes is None:
                exes, err = kani.build_replayer(scr)
                if exes is None:
                    print("replayer build failed:", err)
                    exes = ()
            j = r.job
            vals = []
            verdict, text = ("error", "no counterexample values")
            custom = getattr(mod, "custom_replay", None)
            # 1. cheap: a grid of concrete inputs of the same harness body, natively (the solver's failed check is what flags the obligation;
            #    the grid only finds a real input)
            if exes and hasattr(mod, "fallback_candidates") and j.replay == "body":
                for v in mod.fallback_candidates(j):
                    vd, tx = kani.replay_native(exes[:1], j.body, j.params, v)
                    if vd == "reproduced":
                        verdict, text, vals = vd, tx + " [input found by the native candidate grid after the solver flagged the obligation]", v
                        break
            # 2. otherwise the trace run: the solver's own input values
            if verdict != "reproduced":
                kani.playback(scr, r)
                rank = {"reproduced": 4, "unrealised": 3, "holds": 2, "inadmissible": 1, "error": 0}
                best = None
                cands = [c[1] for c in (r.cex_all or [])] or ([r.cex] if r.cex is not None else [])
                for cand in cands[:6]:
                    if not exes:
                        break
                    v = decode_inputs(cand, j.n_inputs)
                    if j.replay == "body":
                        vd, tx = kani.replay_native(exes, j.body, j.params, v)
                    elif custom:
                        vd, tx = custom(j, v, exes)
                    else:
                        continue
                    if best is None or rank.get(vd, 0) > rank.get(best[0], 0):
                        best = (vd, tx, v)
                    if vd == "reproduced":
                        break
                if best:
                    verdict, text, vals = best
            r.replay = {"verdict": verdict, "text": text, "inputs": [str(v) for v in vals]}
            if verdict == "reproduced":
                role = mod.finding_role(j, vals, text) if hasattr(mod, "finding_role") else None
                listed = [f for f in findings if f.get("status") == "known" and f.get("role") == role and role]
                if listed:
                    known_seen.append({"role": role, "job": j.id, "inputs": r.replay["inputs"], "what": listed[0].get("what", "")})
                else:
                    os.makedirs(os.path.join(EVID, "replays"), exist_ok=True)
                    hh = hashlib.sha256((j.id + str(vals)).encode()).hexdigest()[:10]
                    path = os.path.join(EVID, "replays", "%s-%s.json" % (pid, hh))
                    json.dump({"property": pid, "job": j.id, "body": j.body, "params": j.params, "inputs": [str(v) for v in vals],
                               "decoded": mod.describe(j, vals) if hasattr(mod, "describe") else None,
                               "failed_checks": r.reason, "native": text, "clause": j.clause}, open(path, "w"), indent=1)
                    violations.append((j, path, r))
            elif verdict == "unrealised":
                unreal.append({"job": j.id, "inputs": r.replay["inputs"], "text": text})
                r.status = "inconclusive"
                r.reason = "counterexample lives in a stub's freedom and is not realised by the real data: " + text[:200]
            else:
                r.status = "inconclusive"
                r.reason = "solver counterexample did not reproduce natively (%s): %s | %s" % (verdict, text[:200], r.reason[:200])
        for b in b_results:
            if b["status"] == "failed":
                if b.get("reproduced"):
                    role = b.get("role")
                    listed = [f for f in findings if f.get("status") == "known" and role and f.get("role") == role]
                    if listed:
                        known_seen.append({"role": role, "job": b["id"], "inputs": [str(b.get("native", ""))[:200]], "what": listed[0].get("what", "")})
                        b["status"] = "known-finding"
                        continue
                    os.makedirs(os.path.join(EVID, "replays"), exist_ok=True)
                    hh = hashlib.sha256((b["id"] + str(b.get("model"))).encode()).hexdigest()[:10]
                    path = os.path.join(EVID, "replays", "%s-%s.json" % (pid, hh))
                    json.dump(b, open(path, "w"), indent=1, default=str)
                    violations.append((None, path, b))
                else:
                    b["status"] = "inconclusive"
    finally:
        if not keep:
            scr.cleanup()
    wall = time.time() - t0
    ev = evidence(pid, mod, tier, seed, results, b_results, violations, known_seen, unreal, wall)
    os.makedirs(EVID, exist_ok=True)
    json.dump(ev, open(os.path.join(EVID, pid + ".json"), "w"), indent=1)
    for k in known_seen:
        print("KNOWN-FINDING: property=%s %s (role %s; job %s inputs %s)" % (pid, k["what"], k["role"], k["job"], ",".join(k["inputs"])))
    nd = sum(1 for r in results if r.status == "discharged") + sum(1 for b in b_results if b["status"] == "discharged")
    ninc = sum(1 for r in results if r.status == "inconclusive") + sum(1 for b in b_results if b["status"] == "inconclusive")
    print("%s tier=%s: %d obligations, %d discharged, %d inconclusive, %d violations, %.0fs" % (
        pid, tier, len(results) + len(b_results), nd, ninc, len(violations), wall))
    for r in results:
        if r.status == "inconclusive":
            print("  INCONCLUSIVE %s: %s" % (r.job.id, r.reason[:300]))
    for b in b_results:
        if b["status"] == "inconclusive":
            print("  INCONCLUSIVE %s: %s" % (b["id"], b.get("reason", "")[:300]))
    if violations:
        for j, path, r in violations:
            print("VIOLATION property=%s replay=%s" % (pid, path))
        return 1
    if any(getattr(r, "replay", None) and r.replay["verdict"] in ("holds", "inadmissible", "error") for r in results):
        # a solver counterexample that does not reproduce: the encoding is wrong, never a violation
        return 2
    return 0


def evidence(pid, mod, tier, seed, results, b_results, violations, known_seen, unreal, wall):
    samples = []
    funcs = set()
    for r in sorted(results, key=lambda r: r.job.id):
        funcs |= r.functions
        samples.append({
            "obligation": r.job.id, "engine": "A kani/cbmc/cadical", "harness": r.job.body, "params": r.job.params,
            "clause": r.job.clause, "bound": r.job.bound, "unwind": r.job.unwind,
            "stubs": [s if isinstance(s, str) else list(s) for s in r.job.stubs],
            "status": r.status, "reason": r.reason[:400], "wall_s": round(r.wall_s, 1), "solver_s": round(r.solver_s, 1),
            "symex_s": round(r.symex_s, 1), "cbmc_checks": r.checks, "variables": r.variables, "clauses": r.clauses,
            "witnesses": r.covers, "replay": getattr(r, "replay", None)})
    for b in b_results:
        for f in b.get("functions", []):
            funcs.add(f)
        samples.append({k: v for k, v in b.items() if k not in ("smt",)})
    n_obl = len(results) + len(b_results)
    n_dis = sum(1 for r in results if r.status == "discharged") + sum(1 for b in b_results if b["status"] == "discharged")
    n_nontrivial = sum(1 for r in results if r.status == "discharged" and r.checks > 0 and
                       (r.covers or r.job.must_fail or r.variables > 0)) + \
        sum(1 for b in b_results if b["status"] == "discharged")
    queries = sum(1 for r in results if r.status != "inconclusive" or r.solver_s > 0) + sum(b.get("queries", 1) for b in b_results)
    meta = mod.META
    cov = {
        "evaluations": max(queries, 1),
        "distinct_nontrivial": n_nontrivial,
        "rule": "one evaluation = one solver query (a CBMC run over one generated #[kani::proof] wrapper, or one engine-B SMT query "
                "decided by z3 and cvc5). An obligation counts as non-trivial only if it was discharged, CBMC generated checks for it, "
                "and all of its reachability witnesses (kani::cover!) came back SATISFIED; obligations are distinct by (harness body, parameters).",
        "samples": samples,
        "obligations": n_obl,
        "discharged": n_dis,
        "inconclusive": [s["obligation"] if "obligation" in s else s.get("id") for s in samples if s.get("status") == "inconclusive"],
        "exhaustive": bool(meta.get("exhaustive_when_all_discharged")) and n_dis == n_obl and tier == "thorough",
        "functions_encoded": sorted(funcs),
        "solver_time_s": round(sum(r.solver_s for r in results) + sum(b.get("solver_s", 0) for b in b_results), 1),
        "clauses_decided": meta.get("decided", []),
        "outside_claim": meta.get("outside", []),
        "known_findings_seen": known_seen,
        "unrealised_counterexamples": unreal,
        "repo_fingerprint": repo_fingerprint(),
        "checker_cmd": "./check %s --tier %s" % (pid, tier),
    }
    return {
        "property_id": pid, "tier": tier, "seed": seed, "level": "model_checking", "coverage": cov,
        "assumptions": meta.get("assumptions", []),
        "wall_s": round(wall, 1), "violations": len(violations),
    }
