"""Engine A: Kani/CBMC jobs.  One job = one generated #[kani::proof] wrapper around a harness body, run in its own
cargo-kani invocation under timeout + ulimit.  A scratch copy of the harness crate (with the generated wrappers) and
one target directory per worker live under /tmp/verif-run-<pid>/ and are removed on exit."""
import os, re, shutil, subprocess, sys, time, json, threading, random, signal, resource
from dataclasses import dataclass, field

VERIF = os.path.dirname(os.path.dirname(os.path.abspath(__file__)))
HARNESS = os.path.join(VERIF, "harness")
REPO = os.environ.get("VERIF_REPO", "/repo")      # development only: a scratch worktree for trials; registered commands never set it

STUBS = {
    # short name -> (target path, replacement path)
    "fmt_empty": ("std::fmt::format", "crate::env::fmt_empty"),
    "fmt_sink": ("std::fmt::format", "crate::env::fmt_sink"),
    "sd_jd_ghost": ("tyme4rs::tyme::solar::SolarDay::get_julian_day", "crate::env::sd_jd_ghost"),
    "sixty_from_name": ("tyme4rs::tyme::sixtycycle::SixtyCycle::from_name", "crate::env::sixty_from_name_model"),
    "lunar_day_never": ("tyme4rs::tyme::lunar::LunarDay::from_ymd", "crate::env::lunar_day_never"),
    "index_of_small": ("tyme4rs::tyme::AbstractCulture::index_of", "crate::env::index_of_small"),
    "index_of_spec": ("tyme4rs::tyme::AbstractCulture::index_of", "crate::env::index_of_spec"),
    "shuo_any": ("tyme4rs::tyme::util::ShouXingUtil::calc_shuo", "crate::env::astro_any"),
    "qi_any": ("tyme4rs::tyme::util::ShouXingUtil::calc_qi", "crate::env::astro_any"),
    "leap_model": ("tyme4rs::tyme::lunar::LunarYear::get_leap_month", "crate::env::leap_model"),
    "from_ym_new": ("tyme4rs::tyme::lunar::LunarMonth::from_ym", "crate::env::from_ym_new"),
    "sd_next_walk": ("<tyme4rs::tyme::solar::SolarDay as tyme4rs::tyme::Tyme>::next", "crate::env::sd_next_walk"),
    "sd_next_in_month": ("<tyme4rs::tyme::solar::SolarDay as tyme4rs::tyme::Tyme>::next", "crate::env::sd_next_in_month"),
    "sd_next_near": ("<tyme4rs::tyme::solar::SolarDay as tyme4rs::tyme::Tyme>::next", "crate::env::sd_next_near"),
    "sd_next_ghost": ("<tyme4rs::tyme::solar::SolarDay as tyme4rs::tyme::Tyme>::next", "crate::env::sd_next_ghost"),
    "sd_jd_rel": ("tyme4rs::tyme::solar::SolarDay::get_julian_day", "crate::env::sd_jd_rel"),
    "sd_jd_ord": ("tyme4rs::tyme::solar::SolarDay::get_julian_day", "crate::env::sd_jd_ord"),
}


@dataclass
class Job:
    id: str                      # e.g. "01.c/m03"
    body: str                    # e.g. "c01::c01c_succ"
    params: list = field(default_factory=list)
    stubs: list = field(default_factory=lambda: ["fmt_empty"])
    unwind: int = None
    timeout: int = 600           # seconds
    mem_gb: int = 3              # expected resident memory (scheduling); the hard limit is max(16, 2*mem_gb + 4) GB
    est: int = 30                # estimated seconds (scheduling only)
    clause: str = ""             # which clause of the property this decides
    bound: str = ""              # stated bound
    allow_fail: list = field(default_factory=list)   # regexes on "desc @ function" of tolerated failed checks
    must_fail: bool = False      # at least one tolerated failure must occur (reachability of the refusal)
    n_inputs: int = None         # number of leading 8-byte draws that are harness inputs (None = all)
    replay: str = "body"         # "body" = native run of the same body; "custom:<name>" handled by the property module
    witness_optional: list = field(default_factory=list)  # cover messages allowed to be unsatisfied
    extra: dict = field(default_factory=dict)

    @property
    def hname(self):
        return "h_" + re.sub(r"[^A-Za-z0-9]", "_", self.id)


@dataclass
class Result:
    job: Job
    status: str = "inconclusive"     # discharged | failed | inconclusive
    reason: str = ""
    wall_s: float = 0.0
    solver_s: float = 0.0
    symex_s: float = 0.0
    variables: int = 0
    clauses: int = 0
    checks: int = 0
    failed_checks: list = field(default_factory=list)   # [(desc, func)]
    covers: dict = field(default_factory=dict)           # msg -> status
    functions: set = field(default_factory=set)
    cex: list = None                                     # list of (u64, nbytes)
    cex_all: list = field(default_factory=list)          # [(failed check description, values)]
    log: str = ""


class Scratch:
    def __init__(self, tag="run"):
        self.dir = "/tmp/verif-%s-%d" % (tag, os.getpid())
        if os.path.exists(self.dir):
            shutil.rmtree(self.dir)
        os.makedirs(self.dir)
        self.crate = os.path.join(self.dir, "crate")
        self.template = os.path.join(self.dir, "tt")
        self.lock = threading.Lock()
        self.workers_ready = set()

    def cleanup(self):
        shutil.rmtree(self.dir, ignore_errors=True)

    def prepare(self, jobs):
        os.makedirs(self.crate)
        shutil.copy(os.path.join(HARNESS, "Cargo.toml"), self.crate)
        if REPO != "/repo":
            ct = os.path.join(self.crate, "Cargo.toml")
            txt = open(ct).read().replace('path = "/repo"', 'path = "%s"' % REPO)
            open(ct, "w").write(txt)
        shutil.copy(os.path.join(REPO, "Cargo.lock"), os.path.join(self.crate, "Cargo.lock"))
        shutil.copytree(os.path.join(HARNESS, "src"), os.path.join(self.crate, "src"), ignore=shutil.ignore_patterns("bin"))
        with open(os.path.join(self.crate, "src", "gen.rs"), "w") as f:
            f.write("// generated by verifkit/kani.py from the job table of this run\n")
            for j in jobs:
                f.write(wrapper(j))

    def worker_dir(self, k):
        return os.path.join(self.dir, "t%d" % k)


def wrapper(j: Job) -> str:
    s = "\n#[kani::proof]\n"
    for st in j.stubs:
        if st in STUBS:
            t, r = STUBS[st]
        else:
            t, r = st  # explicit pair
        s += "#[kani::stub(%s, %s)]\n" % (t, r)
    if j.unwind:
        s += "#[kani::unwind(%d)]\n" % j.unwind
    ps = ", ".join(str(int(p)) for p in j.params)
    s += "fn %s() { crate::%s(&mut crate::nd::In::new(), &[%s]); }\n" % (j.hname, j.body, ps)
    return s


def _limits(mem_gb):
    def f():
        b = int(mem_gb * (1 << 30))
        resource.setrlimit(resource.RLIMIT_AS, (b, b))
        os.setsid()
    return f


def env_base():
    e = dict(os.environ)
    e["CARGO_NET_OFFLINE"] = "true"
    e.pop("RUSTFLAGS", None)
    e["CARGO_TERM_COLOR"] = "never"
    return e


RE_CHECK = re.compile(r"^Check \d+: (\S+)")
RE_STATUS = re.compile(r"^\s+- Status: (\w+)")
RE_DESC = re.compile(r'^\s+- Description: "(.*)"')
RE_LOC = re.compile(r"^\s+- Location: .* in function (\S+)")


def parse_log(text, res: Result):
    cur = {}
    in_failed = False
    lines = text.splitlines()
    n = len(lines)
    k = 0
    while k < n:
        ln = lines[k]
        m = RE_CHECK.match(ln)
        if m:
            cur = {"name": m.group(1)}
            res.checks += 1
        elif ln.startswith("\t - Status:") or RE_STATUS.match(ln):
            cur["status"] = RE_STATUS.match(ln).group(1)
        elif RE_DESC.match(ln):
            cur["desc"] = RE_DESC.match(ln).group(1)
        elif RE_LOC.match(ln):
            fn = RE_LOC.match(ln).group(1)
            cur["func"] = fn
            if fn.startswith("tyme4rs::"):
                res.functions.add(fn)
            st = cur.get("status")
            if st in ("SATISFIED", "UNSATISFIABLE", "UNREACHABLE") and ".cover." in cur.get("name", ""):
                res.covers[cur.get("desc", "?")] = st
            elif st == "FAILURE":
                res.failed_checks.append((cur.get("desc", ""), fn, cur.get("name", "")))
            elif st == "UNDETERMINED":
                pass
        elif ln.startswith("Runtime decision procedure:"):
            try:
                res.solver_s += float(ln.split(":")[1].strip().rstrip("s"))
            except Exception:
                pass
        elif ln.startswith("Runtime Symex:"):
            try:
                res.symex_s += float(ln.split(":")[1].strip().rstrip("s"))
            except Exception:
                pass
        else:
            m2 = re.match(r"^(\d+) variables, (\d+) clauses", ln)
            if m2:
                res.variables = max(res.variables, int(m2.group(1)))
                res.clauses = max(res.clauses, int(m2.group(2)))
        k += 1
    # concrete playback values: one generated unit test per failed check (and per satisfied cover, which we skip)
    cexs = []
    for blk in text.split("Concrete playback unit test for")[1:]:
        m = re.search(r"/// Check for `(\w+)`: \"(.*)\"", blk)
        kind, desc = (m.group(1), m.group(2)) if m else ("?", "")
        if "let concrete_vals: Vec<Vec<u8>> = vec![" not in blk:
            continue
        seg = blk.split("let concrete_vals: Vec<Vec<u8>> = vec![", 1)[1].split("];", 1)[0]
        vals = []
        for m2 in re.finditer(r"vec!\[([0-9, ]*)\]", seg):
            bs = [int(x) for x in m2.group(1).split(",") if x.strip()]
            v = 0
            for idx, b in enumerate(bs):
                v |= b << (8 * idx)
            vals.append((v, len(bs)))
        if kind != "cover":
            cexs.append((desc, vals))
    if cexs:
        res.cex = cexs[0][1]
        res.cex_all = cexs
    return res


def run_job(scr: Scratch, worker: int, j: Job, procs: dict) -> Result:
    res = Result(job=j)
    tdir = scr.worker_dir(worker)
    with scr.lock:
        need_copy = worker not in scr.workers_ready and os.path.isdir(scr.template) and not os.path.isdir(tdir)
    if need_copy:
        shutil.copytree(scr.template, tdir, symlinks=True)
    scr.workers_ready.add(worker)
    base = ["cargo", "kani", "-Z", "stubbing", "--exact", "--harness", "gen::" + j.hname, "--target-dir", tdir]
    logp = os.path.join(scr.dir, "log_%s.txt" % j.hname)
    t0 = time.time()
    text, timed_out = _run(base, scr, j, procs, logp, j.timeout)
    res.wall_s = time.time() - t0
    res.log = logp
    parse_log(text, res)
    classify(res, text, timed_out)
    res.tdir = tdir
    return res


def playback(scr, res):
    """second run of a failed harness with concrete playback, only to obtain the counterexample's input values (kept out of the first
    run: trace generation costs minutes and gigabytes on the larger harnesses)"""
    j = res.job
    tdir = getattr(res, "tdir", scr.worker_dir(0))
    base = ["cargo", "kani", "-Z", "concrete-playback", "--concrete-playback=print", "-Z", "stubbing", "--exact", "--harness", "gen::" + j.hname, "--target-dir", tdir]
    t0 = time.time()
    text2, to2 = _run(base, scr, j, {}, res.log + ".cex", j.timeout)
    r2 = Result(job=j)
    parse_log(text2, r2)
    res.cex = r2.cex
    res.cex_all = r2.cex_all
    res.wall_s += time.time() - t0
    return res


def _run(cmd, scr, j, procs, logp, timeout):
    with open(logp, "w") as lf:
        p = subprocess.Popen(cmd, cwd=scr.crate, stdout=lf, stderr=subprocess.STDOUT, env=env_base(),
                             preexec_fn=_limits(max(16, j.mem_gb * 2 + 4)))
        procs[j.id] = p
        try:
            p.wait(timeout=timeout)
            timed_out = False
        except subprocess.TimeoutExpired:
            timed_out = True
            try:
                os.killpg(p.pid, signal.SIGKILL)
            except Exception:
                pass
            p.wait()
        procs.pop(j.id, None)
    return open(logp, errors="replace").read(), timed_out


def classify(res: Result, text: str, timed_out: bool):
    j = res.job
    if timed_out:
        res.status, res.reason = "inconclusive", "timeout after %ds" % j.timeout
        return
    if "error: could not compile" in text or "error[E" in text:
        res.status, res.reason = "inconclusive", "harness does not compile against the current tree: " + first_error(text)
        return
    ok = "VERIFICATION:- SUCCESSFUL" in text
    failed = "VERIFICATION:- FAILED" in text
    if not ok and not failed:
        res.status, res.reason = "inconclusive", "no verdict (solver error / out of memory): " + text[-300:].replace("\n", " | ")
        return
    unwinding = [f for f in res.failed_checks if "unwinding assertion" in f[0]]
    real = []
    tolerated = []
    for f in res.failed_checks:
        if "unwinding assertion" in f[0]:
            continue
        key = "%s @ %s" % (f[0], f[1])
        if any(re.search(rx, key) for rx in j.allow_fail):
            tolerated.append(f)
        else:
            real.append(f)
    if "Status: ERROR" in text or "CBMC failed" in text or "out of memory" in text.lower():
        if not real:
            res.status, res.reason = "inconclusive", "CBMC error / out of memory"
            return
    if real:
        res.status, res.reason = "failed", "; ".join("%s @ %s" % (a, b) for a, b, _ in real[:4])
        return
    if unwinding:
        res.status, res.reason = "inconclusive", "unwinding bound too small: " + unwinding[0][2]
        return
    if failed and not tolerated:
        # failed for a reason we did not parse (e.g. undetermined checks)
        res.status, res.reason = "inconclusive", "FAILED without a parsed failing check"
        return
    if j.must_fail and not tolerated:
        res.status, res.reason = "inconclusive", "refusal path not reached (vacuous)"
        return
    bad = [m for m, st in res.covers.items() if st != "SATISFIED" and m not in j.witness_optional]
    if bad:
        res.status, res.reason = "inconclusive", "reachability witness not satisfied (vacuous?): " + "; ".join(bad)
        return
    res.status = "discharged"


def first_error(text):
    for ln in text.splitlines():
        if ln.startswith("error"):
            return ln[:300]
    return "?"


def build_template(scr: Scratch, log=sys.stderr):
    """compile dependencies + harness crate once; workers copy the result"""
    t0 = time.time()
    cmd = ["cargo", "kani", "-Z", "stubbing", "--only-codegen", "--exact", "--harness", "gen::__none__",
           "--target-dir", scr.template]
    p = subprocess.run(cmd, cwd=scr.crate, stdout=subprocess.PIPE, stderr=subprocess.STDOUT, env=env_base(), text=True)
    ok = p.returncode == 0 or "no harnesses matched" in p.stdout.lower() or "No proof harnesses" in p.stdout
    if "error: could not compile" in p.stdout or "error[E" in p.stdout:
        return False, p.stdout
    return True, "template build %.1fs" % (time.time() - t0)


def run_jobs(scr: Scratch, jobs, nworkers=16, mem_budget_gb=56, seed=0, progress=None):
    """run all jobs, most expensive first; returns list of Result"""
    rnd = random.Random(seed)
    order = sorted(jobs, key=lambda j: (-j.est, rnd.random()))
    pending = list(order)
    results = []
    running = {}   # worker -> (job, thread)
    procs = {}
    lock = threading.Lock()
    mem_used = [0]
    free_workers = list(range(nworkers))

    def work(worker, j):
        try:
            r = run_job(scr, worker, j, procs)
        except Exception as e:  # pragma: no cover
            r = Result(job=j, status="inconclusive", reason="runner exception: %r" % e)
        with lock:
            results.append(r)
            mem_used[0] -= j.mem_gb
            free_workers.append(worker)
            running.pop(worker, None)
        if progress:
            progress(r)

    while True:
        with lock:
            started = False
            if pending and free_workers:
                # first pending job that fits the memory budget
                for idx, j in enumerate(pending):
                    if mem_used[0] + j.mem_gb <= mem_budget_gb or not running:
                        w = free_workers.pop(0)
                        pending.pop(idx)
                        mem_used[0] += j.mem_gb
                        t = threading.Thread(target=work, args=(w, j), daemon=True)
                        running[w] = (j, t)
                        t.start()
                        started = True
                        break
            done = not pending and not running
        if done:
            break
        if not started:
            time.sleep(0.2)
    return results


def build_replayer(scr: Scratch):
    """native build of the harness crate (real code, no stubs) for counterexample replay"""
    tdir = os.path.join(scr.dir, "native")
    hdir = HARNESS
    if REPO != "/repo":
        # development only (VERIF_REPO): build a copy of the harness against the scratch worktree
        hdir = os.path.join(scr.dir, "harness-dev")
        if not os.path.isdir(hdir):
            shutil.copytree(HARNESS, hdir, ignore=shutil.ignore_patterns("target"))
            ct = os.path.join(hdir, "Cargo.toml")
            txt = open(ct).read().replace('path = "/repo"', 'path = "%s"' % REPO)
            open(ct, "w").write(txt)
    p = subprocess.run(["cargo", "build", "--offline", "--bin", "replay", "--target-dir", tdir],
                       cwd=hdir, stdout=subprocess.PIPE, stderr=subprocess.STDOUT, env=env_base(), text=True)
    exe = os.path.join(tdir, "debug", "replay")
    if p.returncode != 0 or not os.path.exists(exe):
        return None, p.stdout[-2000:]
    p2 = subprocess.run(["cargo", "build", "--offline", "--release", "--bin", "replay", "--target-dir", tdir],
                        cwd=hdir, stdout=subprocess.PIPE, stderr=subprocess.STDOUT, env=env_base(), text=True)
    exe2 = os.path.join(tdir, "release", "replay")
    return (exe, exe2 if os.path.exists(exe2) else None), ""


def replay_native(exes, body, params, vals, timeout=120):
    """returns (verdict, text): verdict in reproduced | holds | inadmissible | error"""
    out = []
    verdicts = []
    for exe in exes:
        if not exe:
            continue
        a = [exe, body, ",".join(str(int(p)) for p in params) or "-", ",".join(str(int(v) & ((1 << 64) - 1)) for v in vals) or "-"]
        try:
            p = subprocess.run(a, stdout=subprocess.PIPE, stderr=subprocess.STDOUT, text=True, timeout=timeout)
        except subprocess.TimeoutExpired:
            verdicts.append("error")
            out.append("timeout")
            continue
        out.append(p.stdout.strip()[-600:])
        verdicts.append({0: "holds", 1: "reproduced", 3: "inadmissible", 4: "unrealised"}.get(p.returncode, "error"))
    if "reproduced" in verdicts:
        return "reproduced", " || ".join(out)
    if verdicts and all(v == "holds" for v in verdicts):
        return "holds", " || ".join(out)
    if "unrealised" in verdicts:
        return "unrealised", " || ".join(out)
    if "inadmissible" in verdicts:
        return "inadmissible", " || ".join(out)
    return "error", " || ".join(out)
